//! Kani harnesses over the real compiled crates (bounded stand-ins / counterexample generators, DESIGN.md §5).
//! Every harness is an ordinary `pub fn` whose symbolic values come from `sym::any_*`, so the same body is
//! (a) a `#[kani::proof]` under `cargo kani` and (b) replayable on the stable toolchain by `kh-replay`.
#![allow(clippy::all)]
#![allow(unused)]
pub mod sym;
pub mod c10;

/// name -> body, for the replay binary
pub fn registry() -> Vec<(&'static str, fn())> {
    let mut v: Vec<(&'static str, fn())> = Vec::new();
    v.extend_from_slice(c10::HARNESSES);
    v
}
