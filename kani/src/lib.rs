//! Kani harnesses over the real compiled crates (bounded stand-ins / counterexample generators, DESIGN.md §5).
//! Every harness is an ordinary `pub fn` whose symbolic values come from `sym::any_*`, so the same body is
//! (a) a `#[kani::proof]` under `cargo kani` and (b) replayable on the stable toolchain by `kh-replay`.
#![allow(clippy::all)]
#![allow(unused)]
pub mod sym;
pub mod c01;
pub mod c04;
pub mod c05;
pub mod c06;
pub mod c10;
pub mod c11;
pub mod c13;
pub mod c14;
pub mod c15;
pub mod c16;
pub mod c17;
pub mod c18;
pub mod c19;

/// name -> body, for the replay binary
pub fn registry() -> Vec<(&'static str, fn())> {
    let mut v: Vec<(&'static str, fn())> = Vec::new();
    v.extend_from_slice(c04::HARNESSES);
    v.extend_from_slice(c01::HARNESSES);
    v.extend_from_slice(c05::HARNESSES);
    v.extend_from_slice(c06::HARNESSES);
    v.extend_from_slice(c10::HARNESSES);
    v.extend_from_slice(c11::HARNESSES);
    v.extend_from_slice(c13::HARNESSES);
    v.extend_from_slice(c14::HARNESSES);
    v.extend_from_slice(c15::HARNESSES);
    v.extend_from_slice(c16::HARNESSES);
    v.extend_from_slice(c17::HARNESSES);
    v.extend_from_slice(c18::HARNESSES);
    v.extend_from_slice(c19::HARNESSES);
    v
}
