//! C14 — composed operators run their parts in order and stop at the first failure.
use crate::sym::*;
use crate::{check, cover};
use ec_core::operator::composable::Composable;
use ec_core::operator::constant::Constant;
use ec_core::operator::identity::Identity;
use ec_core::operator::mutator::{Mutate, Mutator};
use ec_core::operator::recombinator::{Recombinator, Recombine};
use ec_core::operator::Operator;
use rand::RngCore;

pub const HARNESSES: &[(&str, fn())] = &[
    ("c14_then", c14_then),
    ("c14_and", c14_and),
    ("c14_map_pair_array", c14_map_pair_array),
    ("c14_map_vec", c14_map_vec),
    ("c14_repeat", c14_repeat),
    ("c14_nested", c14_nested),
    ("c14_wrappers", c14_wrappers),
];

/// call log of the probe operators: (probe id, input seen, random word drawn)
pub struct Log {
    pub n: usize,
    pub e: [(u8, u8, u32); 8],
}
static mut LOG: Log = Log { n: 0, e: [(0, 0, 0); 8] };
fn log_reset() {
    unsafe {
        LOG.n = 0;
    }
}
fn log_push(id: u8, x: u8, w: u32) {
    unsafe {
        if LOG.n < 8 {
            LOG.e[LOG.n] = (id, x, w);
        }
        LOG.n += 1;
    }
}
fn log_len() -> usize {
    unsafe { LOG.n }
}
fn log_at(i: usize) -> (u8, u8, u32) {
    unsafe { LOG.e[i] }
}

#[derive(Debug, PartialEq, Eq, Clone, Copy)]
pub struct ProbeErr(pub u8);
impl std::fmt::Display for ProbeErr {
    fn fmt(&self, f: &mut std::fmt::Formatter<'_>) -> std::fmt::Result {
        f.write_str("probe failed")
    }
}
impl std::error::Error for ProbeErr {}

/// probe operator: draws one word, logs, fails on command, otherwise returns f_id(x) = 3x + id
#[derive(Clone, Copy)]
pub struct Probe {
    pub id: u8,
    pub fail: bool,
}
impl Composable for Probe {}
pub fn f(id: u8, x: u8) -> u8 {
    x.wrapping_mul(3).wrapping_add(id)
}
impl Operator<u8> for Probe {
    type Output = u8;
    type Error = ProbeErr;
    fn apply<R: rand::Rng + ?Sized>(&self, x: u8, rng: &mut R) -> Result<u8, ProbeErr> {
        let w = rng.next_u32();
        log_push(self.id, x, w);
        if self.fail { Err(ProbeErr(self.id)) } else { Ok(f(self.id, x)) }
    }
}

/// The combinators' error types live in private modules (`ThenError`, `AndError`, `MapError` cannot be named or
/// matched from outside the crate), so "which part failed" is observed the way a user can: through `Display`.
/// A tiny `fmt::Write` sink records byte `offset` of the `piece`-th string piece written.
struct Peek {
    piece: usize,
    offset: usize,
    seen: usize,
    byte: u8,
}
impl std::fmt::Write for Peek {
    fn write_str(&mut self, s: &str) -> std::fmt::Result {
        if self.seen == self.piece && s.len() > self.offset {
            self.byte = s.as_bytes()[self.offset];
        }
        self.seen += 1;
        Ok(())
    }
}
fn peek(e: &impl std::fmt::Display, piece: usize, offset: usize) -> u8 {
    use std::fmt::Write;
    let mut p = Peek { piece, offset, seen: 0, byte: 0 };
    let _ = write!(p, "{}", e);
    p.byte
}
/// "Error while applying the first passed ..." / "... the second passed ...": byte 25 is b'f' / b's'
fn is_first(e: &impl std::fmt::Display) -> bool {
    peek(e, 0, 25) == b'f'
}
fn is_second(e: &impl std::fmt::Display) -> bool {
    peek(e, 0, 25) == b's'
}

fn src_of(e: &(impl std::error::Error + 'static)) -> Option<ProbeErr> {
    e.source().and_then(|s| s.downcast_ref::<ProbeErr>()).copied()
}

fn word(t: &TapeRng<8>, i: usize) -> u32 {
    (t.tape[i] >> 32) as u32
}

/// log entry i is (id, x, i-th word of the stream): strict left-to-right consumption
fn expect_entry(t: &TapeRng<8>, i: usize, id: u8, x: u8) -> bool {
    i < log_len() && log_at(i) == (id, x, word(t, i))
}

pub fn c14_then() {
    let (f1, f2) = (any_bool(), any_bool());
    let x = any_u8();
    let tape = TapeRng::<8>::symbolic();
    let mut rng = tape.restart();
    log_reset();
    let r = Probe { id: 1, fail: f1 }.then(Probe { id: 2, fail: f2 }).apply(x, &mut rng);
    check!(expect_entry(&tape, 0, 1, x), "then: the first operator runs first on the input");
    if f1 {
        check!(log_len() == 1 && rng.pos == 1, "then: after the first part fails nothing else runs or consumes randomness");
        check!(matches!(&r, Err(e) if is_first(e) && src_of(e) == Some(ProbeErr(1))), "then: the error identifies the first part");
    } else {
        check!(expect_entry(&tape, 1, 2, f(1, x)), "then: the second operator receives the first result and draws the next word");
        check!(log_len() == 2 && rng.pos == 2, "then: exactly two parts run");
        if f2 {
            check!(matches!(&r, Err(e) if is_second(e) && src_of(e) == Some(ProbeErr(2))), "then: the error identifies the second part");
        } else {
            check!(matches!(r, Ok(v) if v == f(2, f(1, x))), "then: result is g(f(x))");
        }
    }
    cover!(f1, "first part failing reachable");
    cover!(!f1 && f2, "second part failing reachable");
    cover!(!f1 && !f2, "success reachable");
}
#[cfg(kani)]
#[kani::proof]
#[kani::unwind(10)]
fn p_c14_then() {
    c14_then()
}

pub fn c14_and() {
    let (f1, f2) = (any_bool(), any_bool());
    let x = any_u8();
    let tape = TapeRng::<8>::symbolic();
    let mut rng = tape.restart();
    log_reset();
    let r = Probe { id: 1, fail: f1 }.and(Probe { id: 2, fail: f2 }).apply(x, &mut rng);
    check!(expect_entry(&tape, 0, 1, x), "and: the first operator runs first on the input");
    if f1 {
        check!(log_len() == 1 && rng.pos == 1, "and: after the first part fails nothing else runs or consumes randomness");
        check!(matches!(&r, Err(e) if is_first(e) && src_of(e) == Some(ProbeErr(1))), "and: the error identifies the first part");
    } else {
        check!(expect_entry(&tape, 1, 2, x), "and: the second operator receives the same input and draws the next word");
        check!(log_len() == 2 && rng.pos == 2, "and: exactly two parts run");
        if f2 {
            check!(matches!(&r, Err(e) if is_second(e) && src_of(e) == Some(ProbeErr(2))), "and: the error identifies the second part");
        } else {
            check!(matches!(r, Ok(v) if v == (f(1, x), f(2, x))), "and: result pairs both results in order");
        }
    }
    cover!(f1, "first part failing reachable");
    cover!(!f1 && f2, "second part failing reachable");
    cover!(!f1 && !f2, "success reachable");
}
#[cfg(kani)]
#[kani::proof]
#[kani::unwind(10)]
fn p_c14_and() {
    c14_and()
}

/// probe whose failure depends on the input seen (so "element k fails" can be commanded)
#[derive(Clone, Copy)]
pub struct FailOn {
    pub id: u8,
    pub bad: u8,
}
impl Composable for FailOn {}
impl Operator<u8> for FailOn {
    type Output = u8;
    type Error = ProbeErr;
    fn apply<R: rand::Rng + ?Sized>(&self, x: u8, rng: &mut R) -> Result<u8, ProbeErr> {
        let w = rng.next_u32();
        log_push(self.id, x, w);
        if x == self.bad { Err(ProbeErr(x)) } else { Ok(f(self.id, x)) }
    }
}

pub fn c14_map_pair_array() {
    let (x, y, bad) = (any_u8(), any_u8(), any_u8());
    let tape = TapeRng::<8>::symbolic();
    let op = Identity.map(FailOn { id: 5, bad });
    // pair
    let mut rng = tape.restart();
    log_reset();
    let r = op.apply((x, y), &mut rng);
    check!(expect_entry(&tape, 0, 5, x), "map(pair): element 0 is mapped first");
    if x == bad {
        check!(r.is_err() && log_len() == 1 && rng.pos == 1, "map(pair): a failing first element stops the pipeline");
    } else {
        check!(expect_entry(&tape, 1, 5, y) && log_len() == 2 && rng.pos == 2, "map(pair): element 1 is mapped second with the next word");
        check!(r.is_err() == (y == bad), "map(pair): fails iff an element fails");
        if let Ok(v) = r {
            check!(v == (f(5, x), f(5, y)), "map(pair): results in order");
        }
    }
    // array
    let mut rng = tape.restart();
    log_reset();
    let r = op.apply([x, y], &mut rng);
    check!(expect_entry(&tape, 0, 5, x), "map(array): element 0 is mapped first");
    if x == bad {
        check!(r.is_err() && log_len() == 1 && rng.pos == 1, "map(array): a failing first element stops the pipeline");
    } else {
        check!(expect_entry(&tape, 1, 5, y) && log_len() == 2 && rng.pos == 2, "map(array): element 1 is mapped second with the next word");
        check!(r.is_err() == (y == bad), "map(array): fails iff an element fails");
        if let Ok(v) = r {
            check!(v == [f(5, x), f(5, y)], "map(array): results in order");
        }
    }
    cover!(x == bad, "first element failing reachable");
    cover!(x != bad && y == bad, "second element failing reachable");
    cover!(x != bad && y != bad, "success reachable");
}
#[cfg(kani)]
#[kani::proof]
#[kani::unwind(10)]
fn p_c14_map_pair_array() {
    c14_map_pair_array()
}

pub fn c14_map_vec() {
    const N: usize = 3;
    let len = any_upto(N);
    let bad = any_u8();
    let mut xs = Vec::new();
    let mut i = 0;
    while i < len {
        xs.push(any_u8());
        i += 1;
    }
    let inp = xs.clone();
    let tape = TapeRng::<8>::symbolic();
    let mut rng = tape.restart();
    log_reset();
    let r = Identity.map(FailOn { id: 6, bad }).apply(xs, &mut rng);
    // first failing index
    let mut first_bad = len;
    let mut i = N;
    while i > 0 {
        i -= 1;
        if i < len && inp[i] == bad {
            first_bad = i;
        }
    }
    let ran = if first_bad < len { first_bad + 1 } else { len };
    check!(log_len() == ran && rng.pos == ran, "map(vec): elements after the first failing one are neither run nor allowed to consume randomness");
    let mut i = 0;
    while i < N {
        if i < ran {
            check!(expect_entry(&tape, i, 6, inp[i]), "map(vec): element i is mapped i-th with the i-th word");
        }
        i += 1;
    }
    match r {
        Ok(v) => {
            check!(first_bad == len && v.len() == len, "map(vec): succeeds iff no element fails, with one result per element");
            let mut i = 0;
            while i < N {
                if i < len && i < v.len() {
                    check!(v[i] == f(6, inp[i]), "map(vec): results in order");
                }
                i += 1;
            }
        }
        Err(e) => {
            check!(first_bad < len, "map(vec): fails only if an element fails");
            check!(src_of(&e) == Some(ProbeErr(bad)), "map(vec): the error carries the failing element's error");
            // "... on the {index}-th element ...": piece 1 is the index
            check!(peek(&e, 1, 0) == b'0' + first_bad as u8, "map(vec): the error identifies which element failed");
        }
    }
    cover!(first_bad == 1 && len == 3, "failure in the middle reachable");
}
#[cfg(kani)]
#[kani::proof]
#[kani::unwind(10)]
fn p_c14_map_vec() {
    c14_map_vec()
}

pub fn c14_repeat() {
    let x = any_u8();
    let k = any_upto(3);
    // fails on its k-th call (k == 3: never)
    struct FailAt {
        k: usize,
    }
    impl Composable for FailAt {}
    impl Operator<u8> for FailAt {
        type Output = u8;
        type Error = ProbeErr;
        fn apply<R: rand::Rng + ?Sized>(&self, x: u8, rng: &mut R) -> Result<u8, ProbeErr> {
            let w = rng.next_u32();
            let call = log_len();
            log_push(7, x, w);
            if call == self.k { Err(ProbeErr(call as u8)) } else { Ok(f(call as u8, x)) }
        }
    }
    let tape = TapeRng::<8>::symbolic();
    let mut rng = tape.restart();
    log_reset();
    let r = FailAt { k }.apply_n_times::<3>().apply(x, &mut rng);
    let ran = if k < 3 { k + 1 } else { 3 };
    check!(log_len() == ran && rng.pos == ran, "repeat: applies N times, stopping at the first failure without consuming more randomness");
    let mut i = 0;
    while i < 3 {
        if i < ran {
            check!(expect_entry(&tape, i, 7, x), "repeat: every application sees a copy of the input and the next word");
        }
        i += 1;
    }
    match r {
        Ok(v) => check!(k == 3 && v == [f(0, x), f(1, x), f(2, x)], "repeat: N results in order"),
        Err(e) => check!(k < 3 && e == ProbeErr(k as u8), "repeat: the failing application's error is returned"),
    }
    log_reset();
    let mut rng = tape.restart();
    let r2 = FailAt { k: 5 }.apply_twice().apply(x, &mut rng);
    check!(matches!(r2, Ok(v) if v == [f(0, x), f(1, x)]) && rng.pos == 2, "apply_twice applies exactly twice");
    // N = 0: nothing runs, nothing is drawn, the result is the empty array
    log_reset();
    let mut rng = tape.restart();
    let r0 = FailAt { k: 0 }.apply_n_times::<0>().apply(x, &mut rng);
    check!(r0.is_ok() && log_len() == 0 && rng.pos == 0, "repeat with N = 0 applies the operator zero times and consumes no randomness");
    log_reset();
    let mut rng = tape.restart();
    let r1 = FailAt { k: 5 }.apply_n_times::<1>().apply(x, &mut rng);
    check!(matches!(r1, Ok(v) if v == [f(0, x)]) && log_len() == 1 && rng.pos == 1, "repeat with N = 1 applies the operator exactly once");
    cover!(k == 1, "failure in the middle reachable");
    cover!(k == 3, "success reachable");
}
#[cfg(kani)]
#[kani::proof]
#[kani::unwind(10)]
fn p_c14_repeat() {
    c14_repeat()
}

/// nesting two deep in every position: (P1 then P2) and (P3 then P4), then map over the pair
pub fn c14_nested() {
    let fails = [any_bool(), any_bool(), any_bool(), any_bool(), any_bool()];
    let x = any_u8();
    let tape = TapeRng::<8>::symbolic();
    let mut rng = tape.restart();
    log_reset();
    let op = Probe { id: 1, fail: fails[0] }
        .then(Probe { id: 2, fail: fails[1] })
        .and(Probe { id: 3, fail: fails[2] }.then(Probe { id: 4, fail: fails[3] }))
        .then(Identity.map(Probe { id: 5, fail: fails[4] }));
    let r = op.apply(x, &mut rng);
    // expected left-to-right schedule
    let ids: [u8; 6] = [1, 2, 3, 4, 5, 5];
    let ins: [u8; 6] = [x, f(1, x), x, f(3, x), f(2, f(1, x)), f(4, f(3, x))];
    let fl: [bool; 6] = [fails[0], fails[1], fails[2], fails[3], fails[4], fails[4]];
    let mut ran = 0;
    let mut failed = false;
    while ran < 6 && !failed {
        failed = fl[ran];
        ran += 1;
    }
    check!(log_len() == ran && rng.pos == ran, "nested: parts run strictly left to right and stop at the first failure");
    let mut i = 0;
    while i < 6 {
        if i < ran {
            check!(expect_entry(&tape, i, ids[i], ins[i]), "nested: part i sees the value the composition prescribes and draws the i-th word");
        }
        i += 1;
    }
    check!(r.is_err() == failed, "nested: fails iff a part fails");
    if let Ok(v) = r {
        check!(v == (f(5, ins[4]), f(5, ins[5])), "nested: result is the composition of the parts");
    }
    cover!(ran == 6 && !failed, "all six parts run");
    cover!(ran == 3 && failed, "failure in the third part reachable");
}
#[cfg(kani)]
#[kani::proof]
#[kani::unwind(10)]
fn p_c14_nested() {
    c14_nested()
}

/// identity, constant and the mutator / recombinator wrappers (by value and by reference) add no behaviour
pub fn c14_wrappers() {
    struct M {
        fail: bool,
    }
    impl Mutator<u8> for M {
        type Error = ProbeErr;
        fn mutate<R: rand::Rng + ?Sized>(&self, g: u8, rng: &mut R) -> Result<u8, ProbeErr> {
            let w = rng.next_u32();
            log_push(8, g, w);
            if self.fail { Err(ProbeErr(8)) } else { Ok(f(8, g)) }
        }
    }
    impl Recombinator<[u8; 2]> for M {
        type Output = u8;
        type Error = ProbeErr;
        fn recombine<R: rand::Rng + ?Sized>(&self, g: [u8; 2], rng: &mut R) -> Result<u8, ProbeErr> {
            let w = rng.next_u32();
            log_push(9, g[0], w);
            if self.fail { Err(ProbeErr(9)) } else { Ok(g[0] ^ g[1]) }
        }
    }
    let (x, y, fail) = (any_u8(), any_u8(), any_bool());
    let tape = TapeRng::<8>::symbolic();
    let mut rng = tape.restart();
    log_reset();
    let Ok(v) = Identity.apply(x, &mut rng);
    check!(v == x && rng.pos == 0, "identity returns its input and consumes no randomness");
    let Ok(c) = Constant::new(y).apply(x, &mut rng);
    check!(c == y && rng.pos == 0, "constant returns its value and consumes no randomness");
    let m = M { fail };
    let a = Mutate::new(&m).apply(x, &mut rng);
    check!(expect_entry(&tape, 0, 8, x) && rng.pos == 1, "Mutate (by reference) forwards input and stream to the mutator");
    check!(a == if fail { Err(ProbeErr(8)) } else { Ok(f(8, x)) }, "Mutate adds no behaviour");
    let b = Mutate::new(M { fail }).apply(x, &mut rng);
    check!(expect_entry(&tape, 1, 8, x) && rng.pos == 2 && b == a, "Mutate (by value) forwards input and stream to the mutator");
    let r1 = Recombine::new(&m).apply([x, y], &mut rng);
    check!(expect_entry(&tape, 2, 9, x) && rng.pos == 3, "Recombine (by reference) forwards input and stream");
    check!(r1 == if fail { Err(ProbeErr(9)) } else { Ok(x ^ y) }, "Recombine adds no behaviour");
    let r2 = Recombine::new(M { fail }).apply([x, y], &mut rng);
    check!(expect_entry(&tape, 3, 9, x) && rng.pos == 4 && r2 == r1, "Recombine (by value) forwards input and stream");
    cover!(fail, "failing wrapped operator reachable");
    cover!(!fail, "succeeding wrapped operator reachable");
}
#[cfg(kani)]
#[kani::proof]
#[kani::unwind(10)]
fn p_c14_wrappers() {
    c14_wrappers()
}
