//! C01 / C02 / C03 — bounded pairing for the Push VM instruction layer (DESIGN §5): the real generic
//! `Instruction<S>::perform` code is run on a lean harness-side state (the real `Stack<T>`s, a `Vec<u8>` stdout)
//! and compared with an executable transcription of the instruction semantics (top-op-second, /0 => 1, %0 => 0,
//! overflow skips, saturating negate/abs, mathematical predicates that consume all operands, ...).
//! The real `PushState` is out of CBMC's reach (HashMap + Cursor: > 900 s for one Add), see DESIGN §2.2.
use crate::sym::*;
use crate::{check, cover};
use ordered_float::OrderedFloat;
use push::error::InstructionResult;
use push::instruction::instruction_error::PushInstructionError;
use push::instruction::{BoolInstruction, FloatInstruction, Instruction, IntInstruction};
use push::push_vm::push_io::HasStdout;
use push::push_vm::stack::{HasStack, Stack, StackError, TypeEq};

type F = OrderedFloat<f64>;

#[derive(Clone)]
pub struct Lean {
    pub int: Stack<i64>,
    pub flo: Stack<F>,
    pub boo: Stack<bool>,
    pub out: Vec<u8>,
}
impl HasStack<i64> for Lean {
    fn stack<U: TypeEq<This = i64>>(&self) -> &Stack<i64> {
        &self.int
    }
    fn stack_mut<U: TypeEq<This = i64>>(&mut self) -> &mut Stack<i64> {
        &mut self.int
    }
}
impl HasStack<F> for Lean {
    fn stack<U: TypeEq<This = F>>(&self) -> &Stack<F> {
        &self.flo
    }
    fn stack_mut<U: TypeEq<This = F>>(&mut self) -> &mut Stack<F> {
        &mut self.flo
    }
}
impl HasStack<bool> for Lean {
    fn stack<U: TypeEq<This = bool>>(&self) -> &Stack<bool> {
        &self.boo
    }
    fn stack_mut<U: TypeEq<This = bool>>(&mut self) -> &mut Stack<bool> {
        &mut self.boo
    }
}
impl HasStdout for Lean {
    type Stdout = Vec<u8>;
    fn stdout(&mut self) -> &mut Vec<u8> {
        &mut self.out
    }
}

/// reference model of the state: contents bottom-first
#[derive(Clone, Copy)]
pub struct M {
    pub int: [i64; 6],
    pub ni: usize,
    pub ci: usize,
    pub flo: [F; 6],
    pub nf: usize,
    pub cf: usize,
    pub boo: [bool; 6],
    pub nb: usize,
    pub cb: usize,
    pub out: [u8; 8],
    pub no: usize,
}
impl M {
    fn i(&self, k: usize) -> i64 {
        self.int[self.ni - 1 - k]
    }
    fn f(&self, k: usize) -> F {
        self.flo[self.nf - 1 - k]
    }
    fn b(&self, k: usize) -> bool {
        self.boo[self.nb - 1 - k]
    }
    fn drop_i(mut self, k: usize) -> Self {
        self.ni -= k;
        self
    }
    fn drop_f(mut self, k: usize) -> Self {
        self.nf -= k;
        self
    }
    fn drop_b(mut self, k: usize) -> Self {
        self.nb -= k;
        self
    }
    fn push_i(mut self, v: i64) -> Self {
        self.int[self.ni] = v;
        self.ni += 1;
        self
    }
    fn push_f(mut self, v: F) -> Self {
        self.flo[self.nf] = v;
        self.nf += 1;
        self
    }
    fn push_b(mut self, v: bool) -> Self {
        self.boo[self.nb] = v;
        self.nb += 1;
        self
    }
    fn print(mut self, bytes: &[u8]) -> Self {
        let mut k = 0;
        while k < bytes.len() {
            if self.no < 8 {
                self.out[self.no] = bytes[k];
            }
            self.no += 1;
            k += 1;
        }
        self
    }
}

#[derive(Clone, Copy, PartialEq)]
pub enum Kind {
    Ok,
    /// skipped: missing operands / arithmetic fault
    Rec,
    /// destination stack full
    Fatal,
    /// both a missing operand and a full destination: the property fixes only "state untouched"
    RecOrFatal,
}
pub struct Exp {
    pub kind: Kind,
    pub m: M,
}
fn ok(m: M) -> Exp {
    Exp { kind: Kind::Ok, m }
}
fn rec(m: M) -> Exp {
    Exp { kind: Kind::Rec, m }
}
fn fatal(m: M) -> Exp {
    Exp { kind: Kind::Fatal, m }
}
fn either(m: M) -> Exp {
    Exp { kind: Kind::RecOrFatal, m }
}

/// state with exactly NI / NF / NB elements (concrete depths keep CBMC's pointer analysis cheap: a symbolic depth
/// made one IntInstruction::Add need 22 GB), symbolic values, symbolic maxima in depth..=depth+1
pub fn sym_state3<const NI: usize, const NF: usize, const NB: usize>(int_vals: fn() -> i64) -> (Lean, M) {
    let mut m = M { int: [0; 6], ni: 0, ci: 0, flo: [OrderedFloat(0.0); 6], nf: 0, cf: 0, boo: [false; 6], nb: 0, cb: 0, out: [0; 8], no: 0 };
    let mut s = Lean { int: Stack::default(), flo: Stack::default(), boo: Stack::default(), out: Vec::new() };
    let mut k = 0;
    while k < NI {
        let v = int_vals();
        let _ = s.int.push(v);
        m = m.push_i(v);
        k += 1;
    }
    let mut k = 0;
    while k < NF {
        let v = OrderedFloat(any_f64());
        let _ = s.flo.push(v);
        m = m.push_f(v);
        k += 1;
    }
    let mut k = 0;
    while k < NB {
        let v = any_bool();
        let _ = s.boo.push(v);
        m = m.push_b(v);
        k += 1;
    }
    m.ci = NI + (any_bool() as usize);
    m.cf = NF + (any_bool() as usize);
    m.cb = NB + (any_bool() as usize);
    s.int.set_max_stack_size(m.ci);
    s.flo.set_max_stack_size(m.cf);
    s.boo.set_max_stack_size(m.cb);
    (s, m)
}

fn same_state(s: &Lean, m: &M) -> bool {
    s.int.size() == m.ni
        && s.flo.size() == m.nf
        && s.boo.size() == m.nb
        && s.int.max_stack_size() == m.ci
        && s.flo.max_stack_size() == m.cf
        && s.boo.max_stack_size() == m.cb
        && stack_matches(&s.int, &m.int[..m.ni])
        && stack_matches(&s.flo, &m.flo[..m.nf])
        && stack_matches(&s.boo, &m.boo[..m.nb])
        && s.out.len() == m.no
        && (m.no > 8 || bytes_are(&s.out, &m.out[..m.no]))
}

fn bytes_are(a: &[u8], b: &[u8]) -> bool {
    let mut ok = a.len() == b.len();
    let mut k = 0;
    while k < 8 {
        if k < a.len() && k < b.len() && a[k] != b[k] {
            ok = false;
        }
        k += 1;
    }
    ok
}

pub fn judge(r: InstructionResult<Lean, PushInstructionError>, exp: &Exp) {
    match r {
        Ok(s) => {
            check!(exp.kind == Kind::Ok, "[C02] an instruction that cannot be carried out reports an error");
            check!(same_state(&s, &exp.m), "[C01] the instruction removes exactly its operands (first operand = top) and pushes exactly its result");
        }
        Err(e) => {
            check!(exp.kind != Kind::Ok, "[C01] an instruction whose operands are present and whose result fits is performed");
            check!(same_state(e.state(), &exp.m), "[C02] the state handed back with an error is identical to the state before the instruction");
            if exp.kind == Kind::Rec {
                check!(e.is_recoverable(), "[C03] missing operands and arithmetic faults never abort the program (recoverable)");
            }
            if exp.kind == Kind::Fatal {
                check!(e.is_fatal(), "[C02] a full destination stack is reported as a fatal error");
            }
            if e.is_fatal() {
                check!(matches!(e.error(), PushInstructionError::StackError(StackError::Overflow { .. })), "[C03] evaluation ends with an error only when a stack would overflow");
            }
        }
    }
}

fn fits(v: i128) -> bool {
    v >= i64::MIN as i128 && v <= i64::MAX as i128
}

/// arithmetic: x = top, y = second, z = third; None = fault (skipped)
fn int_arith(i: &IntInstruction, x: i64, y: i64, z: i64) -> Option<i128> {
    let (xx, yy) = (x as i128, y as i128);
    Some(match i {
        IntInstruction::Inc => xx + 1,
        IntInstruction::Dec => xx - 1,
        IntInstruction::Square => xx * xx,
        IntInstruction::Add => xx + yy,
        IntInstruction::Subtract => xx - yy,
        IntInstruction::Multiply => xx * yy,
        IntInstruction::ProtectedDivide => {
            if y == 0 {
                1
            } else {
                xx / yy
            }
        }
        IntInstruction::Mod => {
            if y == 0 {
                0
            } else if x == i64::MIN && y == -1 {
                return None;
            } else {
                xx % yy
            }
        }
        IntInstruction::Power => {
            if y < 0 || y > u32::MAX as i64 {
                return None;
            }
            if y > 3 {
                // the harness' other exponents are >= 2^21: only the bases 0, 1, -1 do not overflow
                return match x {
                    0 => Some(0),
                    1 => Some(1),
                    -1 => Some(if y % 2 == 0 { 1 } else { -1 }),
                    _ => None,
                };
            }
            let mut r: i128 = 1;
            let mut k = 0;
            while k < 3 {
                if (k as i64) < y {
                    r = r.saturating_mul(xx);
                }
                k += 1;
            }
            r
        }
        IntInstruction::Min => {
            if x <= y {
                xx
            } else {
                yy
            }
        }
        IntInstruction::Max => {
            if x >= y {
                xx
            } else {
                yy
            }
        }
        IntInstruction::Negate(_) => {
            if x == i64::MIN {
                i64::MAX as i128
            } else {
                -xx
            }
        }
        IntInstruction::Abs(_) => {
            if x == i64::MIN {
                i64::MAX as i128
            } else if x < 0 {
                -xx
            } else {
                xx
            }
        }
        IntInstruction::Clamp(_) => {
            let (lo, hi) = if y > z { (z, y) } else { (y, z) };
            (if x < lo {
                lo
            } else if x > hi {
                hi
            } else {
                x
            }) as i128
        }
        _ => return None,
    })
}

fn int_arity(i: &IntInstruction) -> usize {
    match i {
        IntInstruction::Inc
        | IntInstruction::Dec
        | IntInstruction::Square
        | IntInstruction::IsZero
        | IntInstruction::IsPositive
        | IntInstruction::IsNegative
        | IntInstruction::IsEven
        | IntInstruction::IsOdd
        | IntInstruction::Negate(_)
        | IntInstruction::Abs(_) => 1,
        IntInstruction::Clamp(_) => 3,
        _ => 2,
    }
}

fn int_pred(i: &IntInstruction, x: i64, y: i64) -> Option<bool> {
    Some(match i {
        IntInstruction::IsZero => x == 0,
        IntInstruction::IsPositive => x > 0,
        IntInstruction::IsNegative => x < 0,
        IntInstruction::IsEven => x.rem_euclid(2) == 0,
        IntInstruction::IsOdd => x.rem_euclid(2) == 1,
        IntInstruction::Equal => x == y,
        IntInstruction::NotEqual => x != y,
        IntInstruction::LessThan => x < y,
        IntInstruction::LessThanEqual => x <= y,
        IntInstruction::GreaterThan => x > y,
        IntInstruction::GreaterThanEqual => x >= y,
        _ => return None,
    })
}

/// what the instruction semantics prescribe for an int instruction
pub fn int_expect(i: &IntInstruction, m: M) -> Exp {
    match i {
        IntInstruction::Pop(_) => return if m.ni >= 1 { ok(m.drop_i(1)) } else { rec(m) },
        IntInstruction::Push(p) => return if m.ni < m.ci { ok(m.push_i(p.0)) } else { fatal(m) },
        IntInstruction::Dup(_) => {
            return if m.ni == 0 {
                rec(m)
            } else if m.ni < m.ci {
                ok(m.push_i(m.i(0)))
            } else {
                fatal(m)
            }
        }
        IntInstruction::Swap(_) => {
            return if m.ni >= 2 {
                let (x, y) = (m.i(0), m.i(1));
                ok(m.drop_i(2).push_i(x).push_i(y))
            } else {
                rec(m)
            }
        }
        IntInstruction::IsEmpty(_) => return if m.nb < m.cb { ok(m.push_b(m.ni == 0)) } else { fatal(m) },
        IntInstruction::StackDepth(_) => return if m.ni < m.ci { ok(m.push_i(m.ni as i64)) } else { fatal(m) },
        IntInstruction::Flush(_) => {
            let mut n = m;
            n.ni = 0;
            return ok(n);
        }
        IntInstruction::FromBoolean => {
            return if m.nb < 1 && m.ni >= m.ci {
                either(m)
            } else if m.nb < 1 {
                rec(m)
            } else if m.ni >= m.ci {
                fatal(m)
            } else {
                let b = m.b(0);
                ok(m.drop_b(1).push_i(b as i64))
            }
        }
        _ => {}
    }
    let k = int_arity(i);
    if let Some(_) = int_pred(i, 0, 0) {
        // predicates: consume all k operands, push exactly one bool
        if m.nb >= m.cb && m.ni < k {
            return either(m);
        }
        if m.nb >= m.cb {
            return fatal(m);
        }
        if m.ni < k {
            return rec(m);
        }
        let b = int_pred(i, m.i(0), if k >= 2 { m.i(1) } else { 0 }).unwrap_or(false);
        return ok(m.drop_i(k).push_b(b));
    }
    if m.ni < k {
        return rec(m);
    }
    match int_arith(i, m.i(0), if k >= 2 { m.i(1) } else { 0 }, if k >= 3 { m.i(2) } else { 0 }) {
        Some(v) if fits(v) => ok(m.drop_i(k).push_i(v as i64)),
        _ => rec(m),
    }
}

fn any_i64_plain() -> i64 {
    any_i64()
}
/// operands for division-like instructions: every divisor class, full-range dividends from a few anchors
fn any_i64_div() -> i64 {
    match any_u8() % 10 {
        0 => 0,
        1 => 1,
        2 => -1,
        3 => 2,
        4 => -2,
        5 => 7,
        6 => -7,
        7 => i64::MIN,
        8 => i64::MAX,
        _ => i64::MIN + 1,
    }
}
/// operands for Power: exponents 0..=3, negative, beyond u32; bases incl. extremes
fn any_i64_pow() -> i64 {
    match any_u8() % 12 {
        0 => 0,
        1 => 1,
        2 => 2,
        3 => 3,
        4 => -1,
        5 => -3,
        6 => u32::MAX as i64 + 1,
        7 => i64::MAX,
        8 => i64::MIN,
        9 => 3037000500,
        10 => -2097152,
        _ => 2097152,
    }
}

fn int_at<const NI: usize, const NB: usize>(i: &IntInstruction, vals: fn() -> i64) -> bool {
    let (s, m) = sym_state3::<NI, 0, NB>(vals);
    let exp = int_expect(i, m);
    let r = i.perform(s);
    let okk = r.is_ok();
    judge(r, &exp);
    okk
}

/// every instruction at two concrete depths: one operand short, and one spare element beneath the operands (catches
/// over-/under-consumption); the maxima are symbolic (depth or depth+1), so destinations are both full and not full
pub fn int_case<const D: usize>(i: IntInstruction, vals: fn() -> i64) {
    let k = int_arity(&i);
    let (a, b) = match k {
        1 => (int_at::<0, 0>(&i, vals), int_at::<2, 1>(&i, vals)),
        2 => (int_at::<1, 1>(&i, vals), int_at::<3, 0>(&i, vals)),
        _ => (int_at::<2, 0>(&i, vals), int_at::<4, 1>(&i, vals)),
    };
    cover!(a || b, "the instruction can be performed");
}

macro_rules! int_harness {
    ($name:ident, $pname:ident, $instr:expr, $vals:ident, $unwind:expr) => {
        pub fn $name() {
            int_case::<3>($instr, $vals)
        }
        #[cfg(kani)]
        #[kani::proof]
        #[kani::unwind($unwind)]
        fn $pname() {
            $name()
        }
    };
}
int_harness!(c01_int_add, p_c01_int_add, IntInstruction::Add, any_i64_plain, 10);
int_harness!(c01_int_subtract, p_c01_int_subtract, IntInstruction::Subtract, any_i64_plain, 10);
int_harness!(c01_int_multiply, p_c01_int_multiply, IntInstruction::Multiply, any_i64_div, 10);
int_harness!(c01_int_divide, p_c01_int_divide, IntInstruction::ProtectedDivide, any_i64_div, 10);
int_harness!(c01_int_mod, p_c01_int_mod, IntInstruction::Mod, any_i64_div, 10);
int_harness!(c01_int_power, p_c01_int_power, IntInstruction::Power, any_i64_pow, 40);
int_harness!(c01_int_square, p_c01_int_square, IntInstruction::Square, any_i64_pow, 10);
int_harness!(c01_int_inc, p_c01_int_inc, IntInstruction::Inc, any_i64_plain, 10);
int_harness!(c01_int_dec, p_c01_int_dec, IntInstruction::Dec, any_i64_plain, 10);
int_harness!(c01_int_min, p_c01_int_min, IntInstruction::Min, any_i64_plain, 10);
int_harness!(c01_int_max, p_c01_int_max, IntInstruction::Max, any_i64_plain, 10);
int_harness!(c01_int_negate, p_c01_int_negate, IntInstruction::negate(), any_i64_plain, 10);
int_harness!(c01_int_abs, p_c01_int_abs, IntInstruction::abs(), any_i64_plain, 10);
int_harness!(c01_int_clamp, p_c01_int_clamp, IntInstruction::clamp(), any_i64_plain, 10);
int_harness!(c01_int_is_zero, p_c01_int_is_zero, IntInstruction::IsZero, any_i64_plain, 10);
int_harness!(c01_int_is_positive, p_c01_int_is_positive, IntInstruction::IsPositive, any_i64_plain, 10);
int_harness!(c01_int_is_negative, p_c01_int_is_negative, IntInstruction::IsNegative, any_i64_plain, 10);
int_harness!(c01_int_is_even, p_c01_int_is_even, IntInstruction::IsEven, any_i64_plain, 10);
int_harness!(c01_int_is_odd, p_c01_int_is_odd, IntInstruction::IsOdd, any_i64_plain, 10);
int_harness!(c01_int_equal, p_c01_int_equal, IntInstruction::Equal, any_i64_plain, 10);
int_harness!(c01_int_not_equal, p_c01_int_not_equal, IntInstruction::NotEqual, any_i64_plain, 10);
int_harness!(c01_int_lt, p_c01_int_lt, IntInstruction::LessThan, any_i64_plain, 10);
int_harness!(c01_int_le, p_c01_int_le, IntInstruction::LessThanEqual, any_i64_plain, 10);
int_harness!(c01_int_gt, p_c01_int_gt, IntInstruction::GreaterThan, any_i64_plain, 10);
int_harness!(c01_int_ge, p_c01_int_ge, IntInstruction::GreaterThanEqual, any_i64_plain, 10);
int_harness!(c01_int_from_boolean, p_c01_int_from_boolean, IntInstruction::FromBoolean, any_i64_plain, 10);
int_harness!(c01_int_pop, p_c01_int_pop, IntInstruction::pop(), any_i64_plain, 10);
int_harness!(c01_int_dup, p_c01_int_dup, IntInstruction::dup(), any_i64_plain, 10);
int_harness!(c01_int_swap, p_c01_int_swap, IntInstruction::swap(), any_i64_plain, 10);
int_harness!(c01_int_is_empty, p_c01_int_is_empty, IntInstruction::is_empty(), any_i64_plain, 10);
int_harness!(c01_int_depth, p_c01_int_depth, IntInstruction::stack_depth(), any_i64_plain, 10);
int_harness!(c01_int_flush, p_c01_int_flush, IntInstruction::flush(), any_i64_plain, 10);

pub fn c01_int_push() {
    int_case::<3>(IntInstruction::push(any_i64()), any_i64_plain)
}
#[cfg(kani)]
#[kani::proof]
#[kani::unwind(10)]
fn p_c01_int_push() {
    c01_int_push()
}

// ---------------------------------------------------------------------------------------------- bool
pub fn bool_expect(i: &BoolInstruction, m: M) -> Exp {
    match i {
        BoolInstruction::Pop(_) => {
            if m.nb >= 1 {
                ok(m.drop_b(1))
            } else {
                rec(m)
            }
        }
        BoolInstruction::Push(p) => {
            if m.nb < m.cb {
                ok(m.push_b(p.0))
            } else {
                fatal(m)
            }
        }
        BoolInstruction::Dup(_) => {
            if m.nb == 0 {
                rec(m)
            } else if m.nb < m.cb {
                ok(m.push_b(m.b(0)))
            } else {
                fatal(m)
            }
        }
        BoolInstruction::Swap(_) => {
            if m.nb >= 2 {
                let (x, y) = (m.b(0), m.b(1));
                ok(m.drop_b(2).push_b(x).push_b(y))
            } else {
                rec(m)
            }
        }
        BoolInstruction::IsEmpty(_) => {
            if m.nb < m.cb {
                ok(m.push_b(m.nb == 0))
            } else {
                fatal(m)
            }
        }
        BoolInstruction::StackDepth(_) => {
            if m.ni < m.ci {
                ok(m.push_i(m.nb as i64))
            } else {
                fatal(m)
            }
        }
        BoolInstruction::Flush(_) => {
            let mut n = m;
            n.nb = 0;
            ok(n)
        }
        BoolInstruction::Print(_) | BoolInstruction::Println(_) => {
            if m.nb == 0 {
                rec(m)
            } else {
                let b = m.b(0);
                let n = m.drop_b(1).print(if b { b"true" } else { b"false" });
                ok(if matches!(i, BoolInstruction::Println(_)) { n.print(b"\n") } else { n })
            }
        }
        BoolInstruction::Not => {
            if m.nb < 1 {
                rec(m)
            } else {
                let x = m.b(0);
                ok(m.drop_b(1).push_b(!x))
            }
        }
        BoolInstruction::FromInt => {
            if m.nb >= m.cb && m.ni < 1 {
                either(m)
            } else if m.nb >= m.cb {
                fatal(m)
            } else if m.ni < 1 {
                rec(m)
            } else {
                let x = m.i(0);
                ok(m.drop_i(1).push_b(x != 0))
            }
        }
        _ => {
            if m.nb < 2 {
                rec(m)
            } else {
                let (x, y) = (m.b(0), m.b(1));
                let v = match i {
                    BoolInstruction::And => x && y,
                    BoolInstruction::Or => x || y,
                    BoolInstruction::Xor => x != y,
                    _ => !x || y, // Implies: top => second
                };
                ok(m.drop_b(2).push_b(v))
            }
        }
    }
}

/// the stack-generic variants of BoolInstruction have no public constructors (`common` is a private module); they are
/// obtained, with their default payloads, from the derived strum iterator in declaration order
fn bool_variant(k: usize) -> BoolInstruction {
    use strum::IntoEnumIterator;
    match BoolInstruction::iter().nth(k) {
        Some(i) => i,
        None => BoolInstruction::Not,
    }
}

fn bool_at<const NI: usize, const NB: usize>(i: &BoolInstruction) -> bool {
    let (s, m) = sym_state3::<NI, 0, NB>(any_i64_plain);
    let exp = bool_expect(i, m);
    let r = i.perform(s);
    let okk = r.is_ok();
    judge(r, &exp);
    okk
}

pub fn bool_case(k: usize) {
    // declaration order: Pop Push Dup Swap IsEmpty StackDepth Flush Print Println Not Or And Xor Implies FromInt
    let i = if k == 1 { BoolInstruction::push(true) } else { bool_variant(k) };
    let z = bool_at::<0, 0>(&i);
    let a = bool_at::<0, 1>(&i);
    let b = bool_at::<1, 3>(&i);
    cover!(z || a || b, "the instruction can be performed");
}
macro_rules! bool_harness {
    ($name:ident, $pname:ident, $k:expr) => {
        pub fn $name() {
            bool_case($k)
        }
        #[cfg(kani)]
        #[kani::proof]
        #[kani::unwind(20)]
        fn $pname() {
            $name()
        }
    };
}
bool_harness!(c01_bool_pop, p_c01_bool_pop, 0);
bool_harness!(c01_bool_push, p_c01_bool_push, 1);
bool_harness!(c01_bool_dup, p_c01_bool_dup, 2);
bool_harness!(c01_bool_swap, p_c01_bool_swap, 3);
bool_harness!(c01_bool_is_empty, p_c01_bool_is_empty, 4);
bool_harness!(c01_bool_depth, p_c01_bool_depth, 5);
bool_harness!(c01_bool_flush, p_c01_bool_flush, 6);
bool_harness!(c01_bool_print, p_c01_bool_print, 7);
bool_harness!(c01_bool_println, p_c01_bool_println, 8);
bool_harness!(c01_bool_not, p_c01_bool_not, 9);
bool_harness!(c01_bool_or, p_c01_bool_or, 10);
bool_harness!(c01_bool_and, p_c01_bool_and, 11);
bool_harness!(c01_bool_xor, p_c01_bool_xor, 12);
bool_harness!(c01_bool_implies, p_c01_bool_implies, 13);
bool_harness!(c01_bool_from_int, p_c01_bool_from_int, 14);

// ---------------------------------------------------------------------------------------------- float
pub fn float_expect(i: &FloatInstruction, m: M) -> Exp {
    match i {
        FloatInstruction::Pop(_) => {
            if m.nf >= 1 {
                ok(m.drop_f(1))
            } else {
                rec(m)
            }
        }
        FloatInstruction::Push(p) => {
            if m.nf < m.cf {
                ok(m.push_f(p.0))
            } else {
                fatal(m)
            }
        }
        FloatInstruction::Dup(_) => {
            if m.nf == 0 {
                rec(m)
            } else if m.nf < m.cf {
                ok(m.push_f(m.f(0)))
            } else {
                fatal(m)
            }
        }
        FloatInstruction::Swap(_) => {
            if m.nf >= 2 {
                let (x, y) = (m.f(0), m.f(1));
                ok(m.drop_f(2).push_f(x).push_f(y))
            } else {
                rec(m)
            }
        }
        FloatInstruction::IsEmpty(_) => {
            if m.nb < m.cb {
                ok(m.push_b(m.nf == 0))
            } else {
                fatal(m)
            }
        }
        FloatInstruction::StackDepth(_) => {
            if m.ni < m.ci {
                ok(m.push_i(m.nf as i64))
            } else {
                fatal(m)
            }
        }
        FloatInstruction::Flush(_) => {
            let mut n = m;
            n.nf = 0;
            ok(n)
        }
        FloatInstruction::Add | FloatInstruction::Subtract | FloatInstruction::Multiply | FloatInstruction::ProtectedDivide => {
            if m.nf < 2 {
                rec(m)
            } else {
                let (x, y) = (m.f(0), m.f(1));
                let v = match i {
                    FloatInstruction::Add => x + y,
                    FloatInstruction::Subtract => x - y,
                    FloatInstruction::Multiply => x * y,
                    _ => {
                        if y.0 == 0.0 {
                            OrderedFloat(1.0)
                        } else {
                            x / y
                        }
                    }
                };
                ok(m.drop_f(2).push_f(v))
            }
        }
        FloatInstruction::FromIntApprox => {
            if m.ni < 1 && m.nf >= m.cf {
                either(m)
            } else if m.ni < 1 {
                rec(m)
            } else if m.nf >= m.cf {
                fatal(m)
            } else {
                let x = m.i(0);
                ok(m.drop_i(1).push_f(OrderedFloat(x as f64)))
            }
        }
        _ => {
            // comparisons: OrderedFloat's total order; consume both operands, push one bool
            if m.nb >= m.cb && m.nf < 2 {
                either(m)
            } else if m.nb >= m.cb {
                fatal(m)
            } else if m.nf < 2 {
                rec(m)
            } else {
                let (x, y) = (m.f(0), m.f(1));
                let v = match i {
                    FloatInstruction::Equal => x == y,
                    FloatInstruction::NotEqual => x != y,
                    FloatInstruction::GreaterThan => x > y,
                    FloatInstruction::LessThan => x < y,
                    FloatInstruction::GreaterThanOrEqual => x >= y,
                    _ => x <= y,
                };
                ok(m.drop_f(2).push_b(v))
            }
        }
    }
}

fn float_at<const NI: usize, const NF: usize, const NB: usize>(i: &FloatInstruction) -> bool {
    let (s, m) = sym_state3::<NI, NF, NB>(any_i64_plain);
    if matches!(i, FloatInstruction::Add | FloatInstruction::Subtract) {
        // CBMC's own "NaN on addition" check (inf - inf) is not a Rust panic: keep the operands finite for + and -
        let mut k = 0;
        while k < NF {
            assume(m.flo[k].0.is_finite());
            k += 1;
        }
    }
    let exp = float_expect(i, m);
    let r = i.perform(s);
    let okk = r.is_ok();
    judge(r, &exp);
    okk
}

pub fn float_case(i: FloatInstruction) {
    let z = float_at::<0, 0, 0>(&i);
    let a = float_at::<0, 1, 0>(&i);
    let b = float_at::<1, 3, 1>(&i);
    cover!(z || a || b, "the instruction can be performed");
}

macro_rules! float_harness {
    ($name:ident, $pname:ident, $instr:expr) => {
        pub fn $name() {
            float_case($instr)
        }
        #[cfg(kani)]
        #[kani::proof]
        #[kani::unwind(10)]
        fn $pname() {
            $name()
        }
    };
}
// comparisons, stack manipulation, conversion, + - * (bit-blasted f64 division does not finish: see c01_float_divide)
float_harness!(c01_float_equal, p_c01_float_equal, FloatInstruction::Equal);
float_harness!(c01_float_not_equal, p_c01_float_not_equal, FloatInstruction::NotEqual);
float_harness!(c01_float_gt, p_c01_float_gt, FloatInstruction::GreaterThan);
float_harness!(c01_float_lt, p_c01_float_lt, FloatInstruction::LessThan);
float_harness!(c01_float_ge, p_c01_float_ge, FloatInstruction::GreaterThanOrEqual);
float_harness!(c01_float_le, p_c01_float_le, FloatInstruction::LessThanOrEqual);
float_harness!(c01_float_pop, p_c01_float_pop, FloatInstruction::pop());
float_harness!(c01_float_push, p_c01_float_push, FloatInstruction::push(any_f64()));
float_harness!(c01_float_dup, p_c01_float_dup, FloatInstruction::dup());
float_harness!(c01_float_swap, p_c01_float_swap, FloatInstruction::swap());
float_harness!(c01_float_is_empty, p_c01_float_is_empty, FloatInstruction::is_empty());
float_harness!(c01_float_depth, p_c01_float_depth, FloatInstruction::stack_depth());
float_harness!(c01_float_flush, p_c01_float_flush, FloatInstruction::flush());
float_harness!(c01_float_from_int, p_c01_float_from_int, FloatInstruction::FromIntApprox);
float_harness!(c01_float_add, p_c01_float_add, FloatInstruction::Add);
float_harness!(c01_float_subtract, p_c01_float_subtract, FloatInstruction::Subtract);

/// protected division: divisor == 0.0 (either sign) => 1.0; operand order through cheap discriminating cases
pub fn c01_float_divide() {
    let (s, m) = sym_state3::<0, 3, 0>(any_i64_plain);
    // CBMC's own "NaN on division" check (inf / inf) is not a Rust panic: keep the operands finite here
    assume(m.f(0).0.is_finite() && m.f(1).0.is_finite());
    let r = FloatInstruction::ProtectedDivide.perform(s);
    if m.nf < 2 {
        judge(r, &rec(m));
        return;
    }
    let (x, y) = (m.f(0), m.f(1));
    match r {
        Ok(s) => {
            check!(s.flo.size() == m.nf - 1 && s.int.size() == m.ni && s.boo.size() == m.nb, "[C01] protected division consumes both operands and pushes one result");
            let v = *s.flo.top().unwrap();
            if y.0 == 0.0 {
                check!(v.0 == 1.0, "[C01] float division by zero (either sign) yields 1");
            }
            if y.0 == 1.0 && !x.0.is_nan() {
                check!(v == x, "[C01] float division is top / second (dividing by 1 returns the top operand)");
            }
            if x.0 == 0.0 && y.0.is_finite() && y.0 != 0.0 {
                check!(v.0 == 0.0, "[C01] float division is top / second (0 / y is 0)");
            }
            cover!(y.0 == 0.0, "division by zero reachable");
        }
        Err(_) => check!(false, "[C01] float division with two operands is always performed"),
    }
}
#[cfg(kani)]
#[kani::proof]
#[kani::unwind(10)]
fn p_c01_float_divide() {
    c01_float_divide()
}

pub const HARNESSES: &[(&str, fn())] = &[
    ("c01_int_add", c01_int_add),
    ("c01_int_subtract", c01_int_subtract),
    ("c01_int_multiply", c01_int_multiply),
    ("c01_int_divide", c01_int_divide),
    ("c01_int_mod", c01_int_mod),
    ("c01_int_power", c01_int_power),
    ("c01_int_square", c01_int_square),
    ("c01_int_inc", c01_int_inc),
    ("c01_int_dec", c01_int_dec),
    ("c01_int_min", c01_int_min),
    ("c01_int_max", c01_int_max),
    ("c01_int_negate", c01_int_negate),
    ("c01_int_abs", c01_int_abs),
    ("c01_int_clamp", c01_int_clamp),
    ("c01_int_is_zero", c01_int_is_zero),
    ("c01_int_is_positive", c01_int_is_positive),
    ("c01_int_is_negative", c01_int_is_negative),
    ("c01_int_is_even", c01_int_is_even),
    ("c01_int_is_odd", c01_int_is_odd),
    ("c01_int_equal", c01_int_equal),
    ("c01_int_not_equal", c01_int_not_equal),
    ("c01_int_lt", c01_int_lt),
    ("c01_int_le", c01_int_le),
    ("c01_int_gt", c01_int_gt),
    ("c01_int_ge", c01_int_ge),
    ("c01_int_from_boolean", c01_int_from_boolean),
    ("c01_int_pop", c01_int_pop),
    ("c01_int_dup", c01_int_dup),
    ("c01_int_swap", c01_int_swap),
    ("c01_int_is_empty", c01_int_is_empty),
    ("c01_int_depth", c01_int_depth),
    ("c01_int_flush", c01_int_flush),
    ("c01_int_push", c01_int_push),
    ("c01_bool_pop", c01_bool_pop),
    ("c01_bool_push", c01_bool_push),
    ("c01_bool_dup", c01_bool_dup),
    ("c01_bool_swap", c01_bool_swap),
    ("c01_bool_is_empty", c01_bool_is_empty),
    ("c01_bool_depth", c01_bool_depth),
    ("c01_bool_flush", c01_bool_flush),
    ("c01_bool_print", c01_bool_print),
    ("c01_bool_println", c01_bool_println),
    ("c01_bool_not", c01_bool_not),
    ("c01_bool_or", c01_bool_or),
    ("c01_bool_and", c01_bool_and),
    ("c01_bool_xor", c01_bool_xor),
    ("c01_bool_implies", c01_bool_implies),
    ("c01_bool_from_int", c01_bool_from_int),
    ("c01_float_equal", c01_float_equal),
    ("c01_float_not_equal", c01_float_not_equal),
    ("c01_float_gt", c01_float_gt),
    ("c01_float_lt", c01_float_lt),
    ("c01_float_ge", c01_float_ge),
    ("c01_float_le", c01_float_le),
    ("c01_float_pop", c01_float_pop),
    ("c01_float_push", c01_float_push),
    ("c01_float_dup", c01_float_dup),
    ("c01_float_swap", c01_float_swap),
    ("c01_float_is_empty", c01_float_is_empty),
    ("c01_float_depth", c01_float_depth),
    ("c01_float_flush", c01_float_flush),
    ("c01_float_from_int", c01_float_from_int),
    ("c01_float_add", c01_float_add),
    ("c01_float_subtract", c01_float_subtract),
    ("c01_float_divide", c01_float_divide),
    ("c01_block", c01_block),
];

// ---------------------------------------------------------------------------------------------- block unfolding
/// `impl<S, I> Instruction<S> for Vec<I>` (a block unfolds onto the exec stack) is generic: it is exercised here with
/// a tiny instruction type and a one-stack state (a `PushProgram`-carrying state is out of CBMC's reach)
#[derive(Clone, Copy, PartialEq, Debug)]
pub struct Tiny(pub u8);
#[derive(Clone)]
pub struct BState {
    pub exec: Stack<Tiny>,
}
impl HasStack<Tiny> for BState {
    fn stack<U: TypeEq<This = Tiny>>(&self) -> &Stack<Tiny> {
        &self.exec
    }
    fn stack_mut<U: TypeEq<This = Tiny>>(&mut self) -> &mut Stack<Tiny> {
        &mut self.exec
    }
}
impl Instruction<BState> for Tiny {
    type Error = PushInstructionError;
    fn perform(&self, state: BState) -> InstructionResult<BState, PushInstructionError> {
        Ok(state)
    }
}

fn block_at<const N0: usize, const K: usize>() -> bool {
    let mut exec: Stack<Tiny> = Stack::default();
    let mut pre = [Tiny(0); 4];
    let mut i = 0;
    while i < N0 {
        pre[i] = Tiny(any_u8());
        let _ = exec.push(pre[i]);
        i += 1;
    }
    // maximum anywhere from "already full" to "everything fits"
    let cap = N0 + any_upto(K);
    exec.set_max_stack_size(cap);
    let mut block = Vec::new();
    let mut items = [Tiny(0); 4];
    let mut i = 0;
    while i < K {
        items[i] = Tiny(any_u8());
        block.push(items[i]);
        i += 1;
    }
    let r = block.perform(BState { exec });
    match r {
        Ok(s) => {
            check!(N0 + K <= cap, "[C03] a block that does not fit the exec stack aborts with an overflow");
            // first element of the block on top
            let mut want = [Tiny(0); 8];
            let mut n = 0;
            let mut i = 0;
            while i < N0 {
                want[n] = pre[i];
                n += 1;
                i += 1;
            }
            let mut i = K;
            while i > 0 {
                i -= 1;
                want[n] = items[i];
                n += 1;
            }
            check!(stack_matches(&s.exec, &want[..n]), "[C01] a block unfolds onto the exec stack in order (first element of the block on top)");
            true
        }
        Err(e) => {
            check!(N0 + K > cap, "[C01] a block that fits the exec stack is unfolded");
            check!(e.is_fatal() && matches!(e.error(), PushInstructionError::StackError(StackError::Overflow { .. })), "[C03] a block that does not fit aborts with StackError::Overflow");
            check!(stack_matches(&e.state().exec, &pre[..N0]), "[C02] the state handed back with an error is identical to the state before the instruction");
            check!(e.state().exec.max_stack_size() == cap, "[C02] the limits are untouched");
            false
        }
    }
}
pub fn c01_block() {
    let a = block_at::<0, 2>();
    let b = block_at::<1, 2>();
    let c = block_at::<2, 1>();
    let d = block_at::<1, 0>();
    cover!(a || b || c, "a block can be unfolded");
    cover!(!a || !b || !c, "a block can overflow");
    cover!(d, "the empty block is a no-op");
}
#[cfg(kani)]
#[kani::proof]
#[kani::unwind(10)]
fn p_c01_block() {
    c01_block()
}
