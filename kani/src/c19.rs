//! C19 — the generated state builder builds the configured state (run-time part, on the real `PushState` builder:
//! building is within CBMC's reach as long as no instruction is performed and the state's drop glue is skipped)
use crate::sym::*;
use crate::{check, cover};
use push::push_vm::push_state::PushState;
use push::push_vm::stack::{Stack, StackError};
use ordered_float::OrderedFloat;
use push::instruction::{IntInstruction, PushInstruction};
use push::push_vm::program::PushProgram;
use push::push_vm::HasStack;

pub const HARNESSES: &[(&str, fn())] = &[
    ("c19_sizes", c19_sizes),
    ("c19_values_int", c19_values_int),
    ("c19_values_bool_float", c19_values_bool_float),
    ("c19_program", c19_program),
    ("c19_inputs", c19_inputs),
    #[cfg(unhindered_ec_verif)]
    ("c19_alt_sizes", c19_alt_sizes),
    #[cfg(unhindered_ec_verif)]
    ("c19_alt_values", c19_alt_values),
    #[cfg(unhindered_ec_verif)]
    ("c19_alt_flags", c19_alt_flags),
];

#[cfg(kani)]
fn rs_stub() -> std::hash::RandomState {
    // RandomState is two u64 keys; nothing is hashed unless an input is declared
    unsafe { std::mem::zeroed() }
}


fn caps(state: &PushState) -> (usize, usize, usize, usize) {
    (
        state.stack::<PushProgram>().max_stack_size(),
        state.stack::<i64>().max_stack_size(),
        state.stack::<OrderedFloat<f64>>().max_stack_size(),
        state.stack::<bool>().max_stack_size(),
    )
}

/// each stack has the maximum size last set for it (globally or individually); the step limit is the one configured
pub fn c19_sizes() {
    let (g, i, f, b, steps) = (any_usize(), any_usize(), any_usize(), any_usize(), any_usize());
    let which = any_u8() % 4;
    let bld = PushState::builder().with_max_stack_size(g);
    let state = match which {
        0 => bld.with_no_program().with_instruction_step_limit(steps).build(),
        1 => bld.with_int_max_size(i).with_no_program().with_instruction_step_limit(steps).build(),
        2 => bld.with_instruction_step_limit(steps).with_float_max_size(f).with_bool_max_size(b).with_no_program().build(),
        _ => bld.with_bool_max_size(b).with_int_max_size(i).with_float_max_size(f).with_int_max_size(g).with_no_program().with_instruction_step_limit(steps).build(),
    };
    let expect = match which {
        0 => (g, g, g, g),
        1 => (g, i, g, g),
        2 => (g, g, f, b),
        _ => (g, g, f, b),
    };
    check!(caps(&state) == expect, "each stack has the maximum size last set for it (globally or individually)");
    check!(state.max_instruction_steps() == steps, "the step limit is the one configured");
    check!(state.stack::<i64>().size() == 0 && state.stack::<bool>().size() == 0 && state.stack::<PushProgram>().size() == 0, "nothing is loaded that was not configured");
    cover!(which == 3, "individual overrides reachable");
    std::mem::forget(state);
}
#[cfg(kani)]
#[kani::proof]
#[kani::unwind(4)]
#[kani::stub(std::hash::RandomState::new, rs_stub)]
fn p_c19_sizes() {
    c19_sizes()
}

/// each stack holds the supplied values, first supplied on top; more values than the maximum is an overflow; the
/// generated accessors address the field declared for that element type
pub fn c19_values_int() {
    let cap = any_upto(3);
    let (a, b, c) = (any_i64(), any_i64(), any_i64());
    match PushState::builder().with_max_stack_size(cap).with_no_program().with_int_values([a, b, c]) {
        Err(e) => {
            check!(cap < 3 && matches!(e, StackError::Overflow { .. }), "supplying more values than the maximum is reported as an overflow");
            std::mem::forget(e);
        }
        Ok(bld) => {
            check!(cap >= 3, "supplying more values than the maximum is reported as an overflow");
            let state = bld.with_instruction_step_limit(1).build();
            let ints: &Stack<i64> = state.stack::<i64>();
            check!(ints.size() == 3 && ints.top3().ok() == Some((&a, &b, &c)), "int stack holds the supplied values, first supplied on top (accessor addresses the int field)");
            check!(state.stack::<bool>().size() == 0 && state.stack::<OrderedFloat<f64>>().size() == 0 && state.stack::<PushProgram>().size() == 0, "the other stacks are untouched");
            cover!(true, "values loaded");
            std::mem::forget(state);
        }
    }
    cover!(cap < 3, "overflow reachable");
}
#[cfg(kani)]
#[kani::proof]
#[kani::unwind(6)]
#[kani::stub(std::hash::RandomState::new, rs_stub)]
fn p_c19_values_int() {
    c19_values_int()
}

pub fn c19_values_bool_float() {
    let (p, q) = (any_bool(), any_bool());
    let x = OrderedFloat(any_f64());
    let Ok(bld) = PushState::builder().with_max_stack_size(2).with_no_program().with_instruction_step_limit(1).with_bool_values([p, q]) else {
        check!(false, "two values fit a maximum of two");
        return;
    };
    let Ok(bld) = bld.with_float_values([x]) else {
        check!(false, "one value fits a maximum of two");
        return;
    };
    let state = bld.build();
    let bools: &Stack<bool> = state.stack::<bool>();
    check!(bools.size() == 2 && bools.top2().ok() == Some((&p, &q)), "bool stack holds the supplied values, first supplied on top (accessor addresses the bool field)");
    let floats: &Stack<OrderedFloat<f64>> = state.stack::<OrderedFloat<f64>>();
    check!(floats.size() == 1 && floats.top().ok() == Some(&x), "float stack holds the supplied value (accessor addresses the float field)");
    check!(state.stack::<i64>().size() == 0 && state.stack::<PushProgram>().size() == 0, "the other stacks are untouched");
    cover!(true, "values loaded");
    std::mem::forget(state);
}
#[cfg(kani)]
#[kani::proof]
#[kani::unwind(6)]
#[kani::stub(std::hash::RandomState::new, rs_stub)]
fn p_c19_values_bool_float() {
    c19_values_bool_float()
}

/// the first element of the supplied program is the first to execute (top of the exec stack); too long a program is
/// an overflow
pub fn c19_program() {
    let cap = any_upto(3);
    // distinguishable elements: an instruction first, an (empty) block second
    let prog = vec![PushProgram::Instruction(PushInstruction::push_int(7)), PushProgram::Block(Vec::new())];
    match PushState::builder().with_max_stack_size(cap).with_program(prog) {
        Err(e) => {
            check!(cap < 2 && matches!(e, StackError::Overflow { .. }), "a program longer than the exec maximum is reported as an overflow");
            std::mem::forget(e);
        }
        Ok(bld) => {
            check!(cap >= 2, "a program longer than the exec maximum is reported as an overflow");
            let state = bld.with_instruction_step_limit(7).build();
            let ex: &Stack<PushProgram> = state.stack::<PushProgram>();
            check!(ex.size() == 2, "the whole program is loaded");
            match ex.top2() {
                Ok((first, second)) => {
                    check!(matches!(first, PushProgram::Instruction(_)), "the first element of the supplied program is the first to execute");
                    check!(matches!(second, PushProgram::Block(_)), "the second element of the supplied program executes second");
                }
                Err(_) => check!(false, "the whole program is loaded"),
            }
            check!(state.stack::<i64>().size() == 0 && state.stack::<bool>().size() == 0, "the data stacks are untouched");
            cover!(true, "program loaded");
            std::mem::forget(state);
        }
    }
    cover!(cap < 2, "overflow reachable");
}
#[cfg(kani)]
#[kani::proof]
#[kani::unwind(6)]
#[kani::stub(std::hash::RandomState::new, rs_stub)]
fn p_c19_program() {
    c19_program()
}

/// named inputs: the same state results whatever the order in which inputs were declared
pub fn c19_inputs() {
    let (a, p) = (any_i64(), any_bool());
    let s1 = PushState::builder().with_max_stack_size(2).with_no_program().with_instruction_step_limit(1).with_int_input("x", a).with_bool_input("y", p).build();
    let s2 = PushState::builder().with_max_stack_size(2).with_bool_input("y", p).with_no_program().with_int_input("x", a).with_instruction_step_limit(1).build();
    check!(s1 == s2, "named inputs resolve to their values regardless of the order in which they were declared");
    cover!(true, "two inputs declared");
    std::mem::forget(s1);
    std::mem::forget(s2);
}
// not registered: hashing two names into the real HashMap does not finish within 3000 s (11 GB); order independence of
// inputs is the Verus lemma in specs/88_builder.vrs
#[cfg(kani)]
#[kani::proof]
#[kani::unwind(12)]
#[kani::stub(std::hash::RandomState::new, rs_stub)]
fn p_c19_inputs() {
    c19_inputs()
}

// ------------------------------------------------------------------------------------- a second generated state type
// `AltState` is the hook struct compiled under `--cfg unhindered_ec_verif` (packages/push/src/push_vm/verif_state.rs):
// stacks declared in another order, exec field named `work`, the bool / int stacks renamed `flags` / `counters` in the
// builder.  The same guarantees hold for it.
#[cfg(unhindered_ec_verif)]
pub fn c19_alt_sizes() {
    use push::push_vm::verif_state::AltState;
    let (g, fl, ct, steps) = (any_usize(), any_usize(), any_usize(), any_usize());
    let which = any_u8() % 3;
    let bld = AltState::builder().with_max_stack_size(g);
    let state = match which {
        0 => bld.with_no_program().with_instruction_step_limit(steps).build(),
        1 => bld.with_flags_max_size(fl).with_no_program().with_instruction_step_limit(steps).build(),
        _ => bld.with_instruction_step_limit(steps).with_counters_max_size(ct).with_flags_max_size(fl).with_no_program().build(),
    };
    let expect = match which {
        0 => (g, g, g, g),
        1 => (g, g, g, fl),
        _ => (g, ct, g, fl),
    };
    let got = (state.work.max_stack_size(), state.int.max_stack_size(), state.float.max_stack_size(), state.bool.max_stack_size());
    check!(got == expect, "second state type: each stack has the maximum size last set for it (globally or individually)");
    check!(state.steps == steps, "second state type: the step limit is the one configured");
    check!(std::ptr::eq(state.stack::<bool>(), &state.bool) && std::ptr::eq(state.stack::<i64>(), &state.int)
        && std::ptr::eq(state.stack::<OrderedFloat<f64>>(), &state.float) && std::ptr::eq(state.stack::<PushProgram>(), &state.work),
        "second state type: the generated accessors address the field declared for that element type");
    cover!(which == 2, "individual overrides reachable");
    std::mem::forget(state);
}
#[cfg(all(kani, unhindered_ec_verif))]
#[kani::proof]
#[kani::unwind(4)]
#[kani::stub(std::hash::RandomState::new, rs_stub)]
fn p_c19_alt_sizes() {
    c19_alt_sizes()
}

#[cfg(unhindered_ec_verif)]
pub fn c19_alt_values() {
    use push::push_vm::verif_state::AltState;
    let cap = any_upto(3);
    let (a, b, c) = (any_i64(), any_i64(), any_i64());
    match AltState::builder().with_max_stack_size(cap).with_no_program().with_counters_values([a, b, c]) {
        Err(e) => {
            check!(cap < 3 && matches!(e, StackError::Overflow { .. }), "second state type: supplying more values than the maximum is reported as an overflow");
            std::mem::forget(e);
        }
        Ok(bld) => {
            check!(cap >= 3, "second state type: supplying more values than the maximum is reported as an overflow");
            let state = bld.with_instruction_step_limit(1).build();
            check!(state.int.size() == 3 && state.int.top3().ok() == Some((&a, &b, &c)), "second state type: the renamed int stack holds the supplied values, first supplied on top");
            check!(state.float.size() == 0 && state.work.size() == 0 && state.bool.size() == 0, "second state type: the other stacks are untouched");
            cover!(true, "values loaded");
            std::mem::forget(state);
        }
    }
    cover!(cap < 3, "overflow reachable");
}
#[cfg(all(kani, unhindered_ec_verif))]
#[kani::proof]
#[kani::unwind(6)]
#[kani::stub(std::hash::RandomState::new, rs_stub)]
fn p_c19_alt_values() {
    c19_alt_values()
}

#[cfg(unhindered_ec_verif)]
pub fn c19_alt_flags() {
    use push::push_vm::verif_state::AltState;
    let (p, q) = (any_bool(), any_bool());
    let Ok(bld) = AltState::builder().with_max_stack_size(2).with_no_program().with_instruction_step_limit(1).with_flags_values([p, q]) else {
        check!(false, "second state type: two values fit a maximum of two");
        return;
    };
    let state = bld.build();
    check!(state.bool.size() == 2 && state.bool.top2().ok() == Some((&p, &q)), "second state type: the renamed bool stack holds the supplied values, first supplied on top");
    check!(state.float.size() == 0 && state.work.size() == 0 && state.int.size() == 0, "second state type: the other stacks are untouched");
    cover!(true, "values loaded");
    std::mem::forget(state);
}
#[cfg(all(kani, unhindered_ec_verif))]
#[kani::proof]
#[kani::unwind(6)]
#[kani::stub(std::hash::RandomState::new, rs_stub)]
fn p_c19_alt_flags() {
    c19_alt_flags()
}
