//! C18 — generators deliver exactly the requested collections and uniform member choices;
//! C12 (generator part) — random bitstrings / Plushy genes apply the configured probabilities.
use crate::c11::ConstRng;
use crate::sym::*;
use crate::{check, cover};
use ec_core::distributions::choices::ChoicesDistribution;
use ec_core::distributions::collection::{ConvertToCollectionGenerator, Generator};
use ec_core::distributions::conversion::{IntoDistribution, ToDistribution};
use ec_core::distributions::wrappers::choose_cloning::{ChooseCloning, EmptySlice};
use ec_core::distributions::wrappers::owned::OneOfCloning;
use ec_core::population::Population;
use ec_linear::genome::bitstring::{Bitstring, BoolGenerator};
use push::genome::plushy::{ConvertToGeneGenerator, GeneGenerator, Plushy, PushGene};
use push::instruction::{BoolInstruction, IntInstruction, PushInstruction};
use rand::distr::slice::Choose;
use rand::distr::{Bernoulli, Distribution, StandardUniform};
use rand::RngCore;

pub const HARNESSES: &[(&str, fn())] = &[
    ("c18_collection", c18_collection::<3>),
    ("c18_collection_n6", c18_collection::<6>),
    ("c18_bitstring_sizes", c18_bitstring_sizes::<3>),
    ("c18_bitstring_sizes_0", c18_bitstring_sizes::<0>),
    ("c18_plushy_size", c18_plushy_size::<2>),
    ("c18_one_of_cloning", c18_one_of_cloning::<3>),
    ("c18_one_of_cloning_n5", c18_one_of_cloning::<5>),
    ("c18_conversions_vec", c18_conversions_vec::<3>),
    ("c18_conversions_array_slice", c18_conversions_array_slice),
    ("c18_macro", c18_macro),
    ("c12_bool_generator", c12_bool_generator),
    ("c12_gene_generator", c12_gene_generator),
];

/// element generator: one word per element, the element is the word
pub struct WordGen;
impl Distribution<u32> for WordGen {
    fn sample<R: rand::Rng + ?Sized>(&self, rng: &mut R) -> u32 {
        rng.next_u32()
    }
}

pub fn c18_collection<const N: usize>() {
    let size = any_upto(N);
    let tape = TapeRng::<8>::symbolic();
    let mut rng = tape.restart();
    let v: Vec<u32> = WordGen.into_collection_generator(size).sample(&mut rng);
    check!(v.len() == size, "a collection generator produces exactly the requested number of elements");
    check!(rng.pos == size, "exactly `size` elements are drawn from the element generator");
    let mut i = 0;
    while i < N {
        if i < size && i < v.len() {
            check!(v[i] == (tape.tape[i] >> 32) as u32, "element i is the i-th draw of the element generator");
        }
        i += 1;
    }
    let mut rng = tape.restart();
    let v2: Vec<u32> = WordGen.to_collection_generator(size).sample(&mut rng);
    let mut same = v2.len() == v.len();
    let mut i = 0;
    while i < N {
        if i < v.len() && i < v2.len() && v[i] != v2[i] {
            same = false;
        }
        i += 1;
    }
    check!(same, "borrowing and owning collection generators agree");
    check!(v.size() == size, "a generated population has exactly the configured size");
    cover!(size == 0, "size 0 reachable");
    cover!(size == N, "maximal size reachable");
}
#[cfg(kani)]
#[kani::proof]
#[kani::unwind(10)]
fn p_c18_collection() {
    c18_collection::<3>()
}
#[cfg(kani)]
#[kani::proof]
#[kani::unwind(10)]
fn p_c18_collection_n6() {
    c18_collection::<6>()
}

pub fn c18_bitstring_sizes<const N: usize>() {
    let size = N;
    let mut rng = SymRng::new(N + 1);
    let b = Bitstring::random(size, &mut rng);
    check!(b.bits.len() == size, "Bitstring::random has exactly the requested size");
    let p = match any_u8() % 3 {
        0 => 0.0,
        1 => 0.5,
        _ => 1.0,
    };
    let mut rng = SymRng::new(N + 1);
    let b = Bitstring::random_with_probability(size, p, &mut rng);
    check!(b.bits.len() == size, "Bitstring::random_with_probability has exactly the requested size");
    let mut i = 0;
    while i < N {
        if i < b.bits.len() {
            if p == 0.0 {
                check!(!b.bits[i], "probability 0 sets no bit");
            }
            if p == 1.0 {
                check!(b.bits[i], "probability 1 sets every bit");
            }
        }
        i += 1;
    }
    cover!(b.bits.len() == N, "requested size reachable");
}
#[cfg(kani)]
#[kani::proof]
#[kani::unwind(6)]
fn p_c18_bitstring_sizes() {
    c18_bitstring_sizes::<3>()
}
#[cfg(kani)]
#[kani::proof]
#[kani::unwind(6)]
fn p_c18_bitstring_sizes_0() {
    c18_bitstring_sizes::<0>()
}

/// a Plushy generator delivers exactly the configured number of genes
pub fn c18_plushy_size<const N: usize>() {
    let mut rng = SymRng::new(2 * N + 2);
    let pl: Plushy = GeneGenerator::new(0.5, OneInstr).into_collection_generator(N).sample(&mut rng);
    check!(ec_linear::genome::Linear::size(&pl) == N, "a Plushy generator delivers exactly the configured number of genes");
    cover!(rng.drawn > N, "instructions are drawn");
    std::mem::forget(pl);
}
#[cfg(kani)]
#[kani::proof]
#[kani::unwind(6)]
fn p_c18_plushy_size() {
    c18_plushy_size::<2>()
}

fn tags(len: usize) -> Vec<u8> {
    let mut v = Vec::new();
    let mut i = 0;
    while i < len {
        v.push(10 + i as u8);
        i += 1;
    }
    v
}

pub fn c18_one_of_cloning<const N: usize>() {
    let len = any_upto(N);
    let v = tags(len);
    match OneOfCloning::new(v) {
        Err(EmptySlice) => check!(len == 0, "EmptySlice is reported only for an empty collection"),
        Ok(d) => {
            check!(len > 0, "building a uniform choice from an empty collection is rejected");
            check!(d.num_choices().get() == len, "num_choices reports the number of members");
            let mut rng = SymRng::new(3);
            let x: u8 = d.sample(&mut rng);
            check!(x >= 10 && (x as usize) < 10 + len, "a sample is a member of the collection");
            if len == N {
                cover!(x == 10, "the first member can be drawn");
                cover!(x as usize == 10 + N - 1, "the last member can be drawn");
            }
        }
    }
}
#[cfg(kani)]
#[kani::proof]
#[kani::unwind(7)]
fn p_c18_one_of_cloning() {
    c18_one_of_cloning::<3>()
}
#[cfg(kani)]
#[kani::proof]
#[kani::unwind(9)]
fn p_c18_one_of_cloning_n5() {
    c18_one_of_cloning::<5>()
}

fn check_owned<D: Distribution<u8> + ChoicesDistribution>(d: Result<D, EmptySlice>, len: usize) {
    match d {
        Err(EmptySlice) => check!(len == 0, "EmptySlice is reported only for an empty collection"),
        Ok(d) => {
            check!(len > 0, "building a uniform choice from an empty collection is rejected");
            check!(d.num_choices().get() == len, "num_choices reports the number of members");
            let mut rng = SymRng::new(3);
            let x: u8 = d.sample(&mut rng);
            check!(x >= 10 && (x as usize) < 10 + len, "a sample is a member of the collection");
        }
    }
}
fn check_ref<'a, D: Distribution<&'a u8> + ChoicesDistribution>(d: Result<D, EmptySlice>, src: &'a [u8]) {
    let len = src.len();
    match d {
        Err(EmptySlice) => check!(len == 0, "EmptySlice is reported only for an empty collection"),
        Ok(d) => {
            check!(len > 0, "building a uniform choice from an empty collection is rejected");
            check!(d.num_choices().get() == len, "num_choices reports the number of members");
            let mut rng = SymRng::new(3);
            let x: &u8 = d.sample(&mut rng);
            let mut found = false;
            let mut i = 0;
            while i < len {
                if std::ptr::eq(x, &src[i]) {
                    found = true;
                }
                i += 1;
            }
            check!(found, "a borrowing choice returns a reference to a member of the collection");
        }
    }
}

/// the Vec conversion flavours (owning, borrowing, cloning)
pub fn c18_conversions_vec<const N: usize>() {
    let len = any_upto(N);
    let v = tags(len);
    check_owned(IntoDistribution::<u8>::into_distribution(v.clone()), len);
    check_owned(IntoDistribution::<u8>::into_distribution(&v), len);
    check_owned(ToDistribution::<u8>::to_distribution(&v), len);
    check_ref(IntoDistribution::<&u8>::into_distribution(&v), &v);
    check_ref(ToDistribution::<&u8>::to_distribution(&v), &v);
    cover!(len == 0, "empty source reachable");
    cover!(len == N, "full source reachable");
}
#[cfg(kani)]
#[kani::proof]
#[kani::unwind(7)]
fn p_c18_conversions_vec() {
    c18_conversions_vec::<3>()
}

/// array and slice flavours, including the empty array / slice
pub fn c18_conversions_array_slice() {
    let a: [u8; 3] = [10, 11, 12];
    let e: [u8; 0] = [];
    check_owned(IntoDistribution::<u8>::into_distribution(a), 3);
    check_owned(IntoDistribution::<u8>::into_distribution(&a), 3);
    check_owned(ToDistribution::<u8>::to_distribution(&a), 3);
    check_ref(IntoDistribution::<&u8>::into_distribution(&a), &a);
    check_ref(ToDistribution::<&u8>::to_distribution(&a), &a);
    check_owned(IntoDistribution::<u8>::into_distribution(e), 0);
    check_owned(IntoDistribution::<u8>::into_distribution(&e), 0);
    check_owned(ToDistribution::<u8>::to_distribution(&e), 0);
    check_ref(IntoDistribution::<&u8>::into_distribution(&e), &e);
    check_ref(ToDistribution::<&u8>::to_distribution(&e), &e);
    let len = any_upto(3);
    let s: &[u8] = &a[..len];
    check_owned(IntoDistribution::<u8>::into_distribution(s), len);
    check_owned(ToDistribution::<u8>::to_distribution(s), len);
    check_ref(IntoDistribution::<&u8>::into_distribution(s), s);
    check_ref(ToDistribution::<&u8>::to_distribution(s), s);
    check_owned(ChooseCloning::new(s), len);
    cover!(len == 0, "empty slice reachable");
    cover!(len == 3, "full slice reachable");
}
#[cfg(kani)]
#[kani::proof]
#[kani::unwind(7)]
fn p_c18_conversions_array_slice() {
    c18_conversions_array_slice()
}

pub fn c18_macro() {
    let d = ec_core::uniform_distribution_of![10u8, 11u8, 12u8];
    check!(d.num_choices().get() == 3, "uniform_distribution_of! reports the number of members");
    let mut rng = SymRng::new(3);
    let x: u8 = d.sample(&mut rng);
    check!(x >= 10 && x <= 12, "uniform_distribution_of! samples only its members");
    cover!(x == 10, "first member reachable");
    cover!(x == 12, "last member reachable");
    let d2 = ec_core::uniform_distribution_of![<u16> 10u8, 11u8];
    let y: u16 = d2.sample(&mut rng);
    check!(y == 10 || y == 11, "typed uniform_distribution_of! samples only its (converted) members");
}
#[cfg(kani)]
#[kani::proof]
#[kani::unwind(7)]
fn p_c18_macro() {
    c18_macro()
}

/// C12: a random bit is set iff Bernoulli(requested probability) accepts the word (all words, representative p)
pub fn c12_bool_generator() {
    let p = match any_u8() % 5 {
        0 => 0.0,
        1 => 0.25,
        2 => 0.5,
        3 => 0.875,
        _ => 1.0,
    };
    let w = any_u64();
    let bit: bool = BoolGenerator::new(p).sample(&mut ConstRng(w, 0));
    let expect = Bernoulli::new(p).unwrap().sample(&mut ConstRng(w, 0));
    check!(bit == expect, "BoolGenerator sets a bit iff Bernoulli(true_probability) accepts the word");
    let b = Bitstring::random_with_probability(2, p, &mut ConstRng(w, 0));
    check!(b.bits.len() == 2 && b.bits[0] == expect && b.bits[1] == expect, "random_with_probability sets each bit with the requested probability");
    // exact threshold: p * 2^64 for these dyadic p
    let thr = (p * 18446744073709551616.0) as u128;
    check!(expect == ((w as u128) < thr) || p == 1.0, "the accepted words are exactly those below p * 2^64");
    let u = Bitstring::random(1, &mut ConstRng(w, 0));
    let fair: bool = StandardUniform.sample(&mut ConstRng(w, 0));
    check!(u.bits[0] == fair, "Bitstring::random draws fair bits");
    cover!(bit && p < 1.0, "bit set below probability 1");
    cover!(!bit && p > 0.0, "bit clear above probability 0");
}
#[cfg(kani)]
#[kani::proof]
#[kani::unwind(5)]
fn p_c12_bool_generator() {
    c12_bool_generator()
}

/// marker instruction distribution: counts its draws
struct OneInstr;
impl Distribution<PushInstruction> for OneInstr {
    fn sample<R: rand::Rng + ?Sized>(&self, rng: &mut R) -> PushInstruction {
        let _ = rng.next_u32();
        PushInstruction::from(IntInstruction::Add)
    }
}
struct NChoices(usize);
impl Distribution<PushInstruction> for NChoices {
    fn sample<R: rand::Rng + ?Sized>(&self, rng: &mut R) -> PushInstruction {
        PushInstruction::from(IntInstruction::Add)
    }
}
impl ChoicesDistribution for NChoices {
    fn num_choices(&self) -> std::num::NonZeroUsize {
        std::num::NonZeroUsize::new(self.0).unwrap()
    }
}

/// C12: a random Plushy gene is a close marker iff uniform_f32(w) < close_probability, otherwise exactly one draw from
/// the instruction distribution; the default close probability is 1/(n+1)
pub fn c12_gene_generator() {
    let cp = any_f32();
    assume(cp >= 0.0 && cp <= 1.0);
    let w = any_u64();
    let mut rng = ConstRng(w, 0);
    let g: PushGene = GeneGenerator::new(cp, OneInstr).sample(&mut rng);
    let r: f32 = StandardUniform.sample(&mut ConstRng(w, 0));
    let is_close = matches!(g, PushGene::Close);
    check!(is_close == (r < cp), "a gene is a close marker iff the uniform [0,1) draw is below the configured close probability");
    check!(rng.1 == if is_close { 1 } else { 2 }, "otherwise exactly one instruction is drawn from the supplied distribution");
    if !is_close {
        check!(matches!(g, PushGene::Instruction(PushInstruction::IntInstruction(IntInstruction::Add))), "the instruction comes from the supplied distribution");
    }
    if cp == 0.0 {
        check!(!is_close, "close probability 0 never yields a close marker");
    }
    std::mem::forget(g);
    cover!(is_close, "close marker reachable");
    cover!(!is_close, "instruction reachable");
    // default close probability 1/(n+1): with n choices a gene closes iff uniform < 1/(n+1)
    let n = match any_u8() % 3 {
        0 => 1,
        1 => 3,
        _ => 9,
    };
    let g2: PushGene = NChoices(n).into_gene_generator().sample(&mut ConstRng(w, 0));
    let default_cp = 1.0f32 / ((n + 1) as f32);
    check!(matches!(g2, PushGene::Close) == (r < default_cp), "the default close probability is 1/(n+1) for n instructions");
    std::mem::forget(g2);
    // the borrowing conversion applies the same default
    let nc = NChoices(n);
    let g3: PushGene = nc.to_gene_generator().sample(&mut ConstRng(w, 0));
    check!(matches!(g3, PushGene::Close) == (r < default_cp), "the default close probability is 1/(n+1) for n instructions (borrowing conversion)");
    std::mem::forget(g3);
    let g4: PushGene = nc.to_gene_generator_with_close_probability(cp).sample(&mut ConstRng(w, 0));
    check!(matches!(g4, PushGene::Close) == (r < cp), "an explicitly configured close probability is the one applied (borrowing conversion)");
    std::mem::forget(g4);
}
#[cfg(kani)]
#[kani::proof]
#[kani::unwind(5)]
fn p_c12_gene_generator() {
    c12_gene_generator()
}
