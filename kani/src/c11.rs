//! C11 — mutation keeps genome structure; C12 — configured probabilities are the ones applied (mutators).
use crate::sym::*;
use crate::{check, cover};
use ec_core::operator::mutator::Mutator;
use ec_linear::genome::bitstring::Bitstring;
use ec_linear::genome::vector::Vector;
use ec_linear::mutator::umad::Umad;
use ec_linear::mutator::with_one_over_length::WithOneOverLength;
use ec_linear::mutator::with_rate::WithRate;
use rand::distr::{Bernoulli, Distribution, StandardUniform};
use rand::RngCore;

pub const HARNESSES: &[(&str, fn())] = &[
    ("c11_with_rate_vec", c11_with_rate_vec::<3>),
    ("c11_with_rate_vec_n5", c11_with_rate_vec::<5>),
    ("c11_with_rate_bitstring", c11_with_rate_bitstring::<3>),
    ("c11_with_rate_bitstring_n5", c11_with_rate_bitstring::<5>),
    ("c11_one_over_length_vec", c11_one_over_length_vec::<3>),
    ("c11_one_over_length_bitstring", c11_one_over_length_bitstring::<3>),
    ("c11_umad_vector", c11_umad_vector::<1>),
    ("c11_umad_vector_n2", c11_umad_vector::<2>),
    ("c11_umad_empty", c11_umad_empty),
    ("c11_linear_impls", c11_linear_impls),
    ("c12_with_rate_threshold", c12_with_rate_threshold),
    ("c12_umad_threshold", c12_umad_threshold),
];

/// a gene that remembers where it came from; `!` flips the value and keeps the tag
#[derive(Clone, Copy, PartialEq, Debug)]
pub struct TG {
    pub tag: u8,
    pub v: bool,
}
impl std::ops::Not for TG {
    type Output = TG;
    fn not(self) -> TG {
        TG { tag: self.tag, v: !self.v }
    }
}

/// constant random stream: every word is `w`, so the outcome does not depend on the order of draws
pub struct ConstRng(pub u64, pub usize);
impl RngCore for ConstRng {
    fn next_u32(&mut self) -> u32 {
        self.1 += 1;
        (self.0 >> 32) as u32
    }
    fn next_u64(&mut self) -> u64 {
        self.1 += 1;
        self.0
    }
    fn fill_bytes(&mut self, dst: &mut [u8]) {
        for b in dst.iter_mut() {
            *b = (self.0 >> 56) as u8;
        }
    }
}

fn sym_rate_f32() -> f32 {
    let r = any_f32();
    assume(r >= 0.0 && r <= 2.0);
    r
}
fn sym_prob_f64() -> f64 {
    let r = any_f64();
    assume(r >= 0.0 && r <= 1.0);
    r
}

/// a probability from a small representative set (a fully symbolic f64 makes CBMC bit-blast rand's `p * 2^64`)
fn some_prob_f64() -> f64 {
    match any_u8() % 5 {
        0 => 0.0,
        1 => 0.25,
        2 => 0.5,
        3 => 0.875,
        _ => 1.0,
    }
}

fn tagged_vec(len: usize) -> Vec<TG> {
    let mut v = Vec::new();
    let mut i = 0;
    while i < len {
        v.push(TG { tag: i as u8, v: any_bool() });
        i += 1;
    }
    v
}

pub fn c11_with_rate_vec<const N: usize>() {
    let len = any_upto(N);
    let parent = tagged_vec(len);
    let rate = sym_rate_f32();
    let mut rng = SymRng::new(N + 1);
    let Ok(child) = WithRate::new(rate).mutate(parent.clone(), &mut rng);
    check!(child.len() == len, "bit-flip mutation keeps the genome length");
    let mut i = 0;
    let mut flips = 0;
    while i < N {
        if i < len && i < child.len() {
            check!(child[i].tag == i as u8, "bit-flip mutation keeps every gene in place");
            check!(child[i].v == parent[i].v || child[i].v == !parent[i].v, "every gene is unchanged or negated");
            if child[i].v != parent[i].v {
                flips += 1;
            }
        }
        i += 1;
    }
    if rate == 0.0 {
        check!(flips == 0, "flip rate 0 is the identity");
    }
    if rate >= 1.0 {
        check!(flips == len, "flip rate >= 1 flips every gene");
    }
    if len >= 2 {
        cover!(child[0].v != parent[0].v && child[1].v == parent[1].v, "genes are flipped independently: first only");
        cover!(child[0].v == parent[0].v && child[1].v != parent[1].v, "genes are flipped independently: second only");
    }
    cover!(len == 0, "empty genome is mutated to an empty genome");
    cover!(flips == len && len == N, "all genes can flip");
}
#[cfg(kani)]
#[kani::proof]
#[kani::unwind(6)]
fn p_c11_with_rate_vec() {
    c11_with_rate_vec::<3>()
}
#[cfg(kani)]
#[kani::proof]
#[kani::unwind(8)]
fn p_c11_with_rate_vec_n5() {
    c11_with_rate_vec::<5>()
}

fn sym_bits(len: usize) -> Vec<bool> {
    let mut bits = Vec::new();
    let mut i = 0;
    while i < len {
        bits.push(any_bool());
        i += 1;
    }
    bits
}

pub fn c11_with_rate_bitstring<const N: usize>() {
    let len = any_upto(N);
    let parent = sym_bits(len);
    let rate = sym_rate_f32();
    let mut rng = SymRng::new(N + 1);
    let Ok(child) = WithRate::new(rate).mutate(Bitstring { bits: parent.clone() }, &mut rng);
    check!(child.bits.len() == len, "bit-flip mutation keeps the genome length");
    let mut i = 0;
    let mut flips = 0;
    while i < N {
        if i < len && i < child.bits.len() && child.bits[i] != parent[i] {
            flips += 1;
        }
        i += 1;
    }
    if rate == 0.0 {
        check!(flips == 0, "flip rate 0 is the identity");
    }
    if rate >= 1.0 {
        check!(flips == len, "flip rate >= 1 flips every gene");
    }
    if len >= 2 {
        cover!(child.bits[0] != parent[0] && child.bits[1] == parent[1], "genes are flipped independently: first only");
        cover!(child.bits[0] == parent[0] && child.bits[1] != parent[1], "genes are flipped independently: second only");
    }
    cover!(len == 0, "empty genome is mutated to an empty genome");
}
#[cfg(kani)]
#[kani::proof]
#[kani::unwind(6)]
fn p_c11_with_rate_bitstring() {
    c11_with_rate_bitstring::<3>()
}
#[cfg(kani)]
#[kani::proof]
#[kani::unwind(8)]
fn p_c11_with_rate_bitstring_n5() {
    c11_with_rate_bitstring::<5>()
}

/// the length-scaled variant is WithRate(1/len) on the same stream (self-composition on one tape)
pub fn c11_one_over_length_vec<const N: usize>() {
    let len = any_upto(N);
    let parent = tagged_vec(len);
    let tape = TapeRng::<4>::symbolic();
    let mut r1 = tape.restart();
    let mut r2 = tape.restart();
    let a = WithOneOverLength.mutate(parent.clone(), &mut r1);
    check!(a.is_ok(), "genome sizes representable in f32 never fail");
    if let Ok(a) = a {
        check!(a.len() == len, "bit-flip mutation keeps the genome length");
        if len > 0 {
            let Ok(b) = WithRate::new(1.0 / (len as f32)).mutate(parent.clone(), &mut r2);
            check!(a == b, "WithOneOverLength applies exactly the rate 1/length");
            check!(r1.pos == r2.pos, "WithOneOverLength consumes the stream like WithRate(1/length)");
        }
        if len == 1 {
            check!(a[0].v != parent[0].v, "length 1: rate 1/1 flips the only gene");
        }
        cover!(len == N, "full-length genome reachable");
        cover!(len == 0, "empty genome reachable");
    }
}
#[cfg(kani)]
#[kani::proof]
#[kani::unwind(6)]
fn p_c11_one_over_length_vec() {
    c11_one_over_length_vec::<3>()
}

pub fn c11_one_over_length_bitstring<const N: usize>() {
    let len = any_upto(N);
    let parent = sym_bits(len);
    let tape = TapeRng::<4>::symbolic();
    let mut r1 = tape.restart();
    let mut r2 = tape.restart();
    let a = WithOneOverLength.mutate(Bitstring { bits: parent.clone() }, &mut r1);
    check!(a.is_ok(), "genome sizes representable in f32 never fail");
    if let Ok(a) = a {
        check!(a.bits.len() == len, "bit-flip mutation keeps the genome length");
        if len > 0 {
            let Ok(b) = WithRate::new(1.0 / (len as f32)).mutate(Bitstring { bits: parent.clone() }, &mut r2);
            check!(a == b, "WithOneOverLength applies exactly the rate 1/length");
        }
        cover!(len == N, "full-length genome reachable");
    }
}
#[cfg(kani)]
#[kani::proof]
#[kani::unwind(6)]
fn p_c11_one_over_length_bitstring() {
    c11_one_over_length_bitstring::<3>()
}

/// new genes come from a disjoint alphabet (>= 200)
pub struct NewGene;
impl Distribution<u8> for NewGene {
    fn sample<R: rand::Rng + ?Sized>(&self, rng: &mut R) -> u8 {
        200 + (rng.next_u32() & 1) as u8
    }
}

/// output = parent's surviving genes in order, at most one new gene after each parent position
fn umad_structure<const N: usize>(out: &[u8], len: usize) -> (usize, usize) {
    let mut j = 0;
    let mut kept = 0;
    let mut added = 0;
    let mut i = 0;
    while i < N {
        if i < len {
            if j < out.len() && out[j] == i as u8 {
                j += 1;
                kept += 1;
            }
            if j < out.len() && out[j] >= 200 {
                j += 1;
                added += 1;
            }
        }
        i += 1;
    }
    check!(j == out.len(), "UMAD output = surviving parent genes in original order with at most one new gene after each parent position");
    (kept, added)
}

pub fn c11_umad_vector<const N: usize>() {
    let len = any_upto(N);
    assume(len >= 1);
    let mut genes = [0u8; 12];
    let mut i = 0;
    while i < N {
        genes[i] = i as u8;
        i += 1;
    }
    let (add, del) = (some_prob_f64(), some_prob_f64());
    let mut rng = SymRng::new(4 * N);
    let Ok(child) = Umad::new(add, del, NewGene).mutate(ArrG { genes, len }, &mut rng);
    check!(child.len <= 2 * len, "UMAD output has at most twice the parent's genes");
    let out_len = if child.len <= 12 { child.len } else { 12 };
    let (kept, added) = umad_structure::<N>(&child.genes[..out_len], len);
    if add == 0.0 && del == 0.0 {
        check!(kept == len && added == 0, "UMAD with rates 0 is the identity");
    }
    if del == 1.0 {
        check!(child.len == 0, "UMAD with deletion rate 1 yields the empty genome");
    }
    if add == 1.0 && del == 0.0 {
        check!(kept == len && added == len, "UMAD with addition rate 1 and deletion rate 0 follows every parent gene by exactly one new gene");
    }
    if add == 0.0 {
        check!(added == 0, "UMAD with addition rate 0 adds nothing");
    }
    cover!(kept == 0 && added == len, "every parent gene deleted, every new gene kept");
    cover!(kept == len && added == 0, "nothing changes");
    cover!(N == 1 || (kept < len && kept > 0), "some but not all parent genes deleted (lengths >= 2)");
}
#[cfg(kani)]
#[kani::proof]
#[kani::unwind(4)]
fn p_c11_umad_vector() {
    c11_umad_vector::<1>()
}
// not registered: parent length 2 runs 45 minutes and ends without a usable result (std's FlatMap / Flatten, DESIGN §12.4)
#[cfg(kani)]
#[kani::proof]
#[kani::unwind(6)]
fn p_c11_umad_vector_n2() {
    c11_umad_vector::<2>()
}

pub fn c11_umad_empty() {
    let (add, del, empty) = (some_prob_f64(), some_prob_f64(), some_prob_f64());
    let mut rng = SymRng::new(4);
    let Ok(a) = Umad::new(add, del, NewGene).mutate(Vector { genes: Vec::<u8>::new() }, &mut rng);
    check!(a.genes.len() <= 1, "UMAD on an empty parent yields at most one gene");
    if a.genes.len() == 1 {
        check!(a.genes[0] >= 200, "the gene added to an empty parent comes from the gene generator");
    }
    if add == 0.0 {
        check!(a.genes.len() == 0, "UMAD with addition rate 0 adds nothing to an empty parent");
    }
    cover!(a.genes.len() == 1, "an empty parent can receive one gene");
    let mut rng = SymRng::new(4);
    let Ok(b) = Umad::new_with_empty_rate(add, empty, del, NewGene).mutate(Vector { genes: Vec::<u8>::new() }, &mut rng);
    check!(b.genes.len() <= 1, "UMAD on an empty parent yields at most one gene");
    if empty == 0.0 {
        check!(b.genes.len() == 0, "empty-genome addition rate 0 adds nothing");
    }
    if empty == 1.0 {
        check!(b.genes.len() == 1, "empty-genome addition rate 1 always adds one gene");
    }
    let mut rng = SymRng::new(4);
    let Ok(c) = Umad::new_without_empty(add, del, NewGene).mutate(Vector { genes: Vec::<u8>::new() }, &mut rng);
    check!(c.genes.len() == 0, "with empty-genome addition disabled an empty parent stays empty");
}
#[cfg(kani)]
#[kani::proof]
#[kani::unwind(4)]
fn p_c11_umad_empty() {
    c11_umad_empty()
}

/// C12: on a constant stream (every draw sees the same word w, so draw order is irrelevant) the flip decision is
/// exactly `uniform_f32(w) < rate`, for all words and all rates — the set of words that flip has measure `rate`.
pub fn c12_with_rate_threshold() {
    let w = any_u64();
    let rate = sym_rate_f32();
    let parent = vec![TG { tag: 0, v: any_bool() }, TG { tag: 1, v: any_bool() }];
    let mut rng = ConstRng(w, 0);
    let Ok(child) = WithRate::new(rate).mutate(parent.clone(), &mut rng);
    let r: f32 = StandardUniform.sample(&mut ConstRng(w, 0));
    let expect_flip = r < rate;
    check!((child[0].v != parent[0].v) == expect_flip, "gene flips iff the uniform [0,1) draw is below the configured rate");
    check!((child[1].v != parent[1].v) == expect_flip, "gene flips iff the uniform [0,1) draw is below the configured rate (second gene)");
    check!(rng.1 == 2, "one uniform draw per gene");
    cover!(expect_flip && rate < 1.0, "a flip below rate 1 occurs");
    cover!(!expect_flip && rate > 0.0, "a non-flip above rate 0 occurs");
    let mut rng = ConstRng(w, 0);
    let Ok(child) = WithRate::new(rate).mutate(Bitstring { bits: vec![parent[0].v] }, &mut rng);
    check!((child.bits[0] != parent[0].v) == expect_flip, "Bitstring gene flips iff the uniform [0,1) draw is below the configured rate");
}
#[cfg(kani)]
#[kani::proof]
#[kani::unwind(5)]
fn p_c12_with_rate_threshold() {
    c12_with_rate_threshold()
}

/// C12: UMAD on a constant stream: insertion happens iff Bernoulli(addition_rate) accepts w, deletion (of old and of
/// new genes) iff Bernoulli(deletion_rate) accepts w — the rates configured are the ones applied, new genes being
/// subject to deletion too.
pub fn c12_umad_threshold() {
    let w = any_u64();
    let (add, del) = (some_prob_f64(), some_prob_f64());
    let mut rng = ConstRng(w, 0);
    let Ok(child) = Umad::new(add, del, NewGene).mutate(ArrG { genes: [0u8; 12], len: 1 }, &mut rng);
    let a = Bernoulli::new(add).unwrap().sample(&mut ConstRng(w, 0));
    let d = Bernoulli::new(del).unwrap().sample(&mut ConstRng(w, 0));
    check!(child.len <= 2, "UMAD output has at most twice the parent's genes");
    let (kept, added) = umad_structure::<1>(&child.genes[..if child.len <= 2 { child.len } else { 2 }], 1);
    check!((kept == 1) == !d, "a parent gene survives iff the deletion coin (configured deletion rate) fails");
    check!((added == 1) == (a && !d), "a new gene appears iff the addition coin (configured addition rate) succeeds and its own deletion coin fails");
    cover!(a && !d, "insertion without deletion occurs");
    cover!(!a && d, "deletion without insertion occurs");
}
#[cfg(kani)]
#[kani::proof]
#[kani::unwind(4)]
fn p_c12_umad_threshold() {
    c12_umad_threshold()
}

/// Harness-side linear genome with array storage: instantiating the generic `Umad::mutate` at `Vector<T>` makes CBMC
/// symbolically execute Vec's `from_iter` specialisations through FlatMap/Flatten (215 s for ONE gene); with this type
/// the same generic body of `Umad::mutate` is explored in seconds.  (`Vector<T>`/`Plushy`'s own `FromIterator` /
/// `IntoIterator` impls are one-line delegations to `Vec`.)
#[derive(Clone, Copy)]
pub struct ArrG {
    pub genes: [u8; 12],
    pub len: usize,
}
impl ec_core::genome::Genome for ArrG {
    type Gene = u8;
}
impl ec_linear::genome::Linear for ArrG {
    fn size(&self) -> usize {
        self.len
    }
    fn gene_mut(&mut self, index: usize) -> Option<&mut u8> {
        if index < self.len { self.genes.get_mut(index) } else { None }
    }
}
pub struct ArrIter {
    g: ArrG,
    pos: usize,
}
impl Iterator for ArrIter {
    type Item = u8;
    fn next(&mut self) -> Option<u8> {
        if self.pos < self.g.len {
            self.pos += 1;
            Some(self.g.genes[self.pos - 1])
        } else {
            None
        }
    }
}
impl IntoIterator for ArrG {
    type Item = u8;
    type IntoIter = ArrIter;
    fn into_iter(self) -> ArrIter {
        ArrIter { g: self, pos: 0 }
    }
}
impl FromIterator<u8> for ArrG {
    fn from_iter<I: IntoIterator<Item = u8>>(iter: I) -> Self {
        let mut g = ArrG { genes: [0; 12], len: 0 };
        for x in iter {
            if g.len < 12 {
                g.genes[g.len] = x;
            }
            g.len += 1;
        }
        g
    }
}


/// the genome types' own `Linear` impls (what the generic mutators rely on): size counts every gene — close markers
/// included — and gene_mut addresses exactly the genes
pub fn c11_linear_impls() {
    use ec_linear::genome::Linear;
    use push::genome::plushy::{Plushy, PushGene};
    let mut p = Plushy::new([PushGene::Close, PushGene::Close]);
    check!(p.size() == 2, "a Plushy's size counts every gene, close markers included");
    check!(p.gene_mut(1).is_some() && p.gene_mut(2).is_none(), "Plushy::gene_mut addresses exactly the genes");
    std::mem::forget(p);
    let n = any_upto(3);
    let mut v = Vector { genes: tagged_vec(n) };
    check!(v.size() == n, "a Vector's size is its number of genes");
    check!(v.gene_mut(n).is_none() && (n == 0 || v.gene_mut(n - 1).is_some()), "Vector::gene_mut addresses exactly the genes");
    let mut b = Bitstring { bits: sym_bits(n) };
    check!(b.size() == n, "a Bitstring's size is its number of bits");
    check!(b.gene_mut(n).is_none() && (n == 0 || b.gene_mut(n - 1).is_some()), "Bitstring::gene_mut addresses exactly the genes");
    cover!(n == 3, "three genes reachable");
}
#[cfg(kani)]
#[kani::proof]
#[kani::unwind(6)]
fn p_c11_linear_impls() {
    c11_linear_impls()
}
