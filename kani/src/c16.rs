//! C16 — all randomness comes from the supplied generator: self-composition.  Every operation is run twice from the
//! same symbolic stream; results and stream positions must agree.  A hidden entropy source (thread RNG, OS RNG,
//! clock, RandomState) makes CBMC reach a foreign function (`getrandom`, `clock_gettime`), which is reported as the
//! failed obligation "no foreign entropy source reachable".
use crate::c06::{member_index, sym_pop, Ind};
use crate::c11::{ArrG, NewGene, TG};
use crate::sym::*;
use crate::{check, cover};
use ec_core::distributions::collection::ConvertToCollectionGenerator;
use ec_core::distributions::wrappers::owned::OneOfCloning;
use ec_core::individual::ec::{EcIndividual, WithScorer};
use ec_core::individual::scorer::FnScorer;
use ec_core::operator::mutator::Mutator;
use ec_core::operator::recombinator::Recombinator;
use ec_core::operator::selector::lexicase::Lexicase;
use ec_core::operator::selector::random::Random;
use ec_core::operator::selector::tournament::Tournament;
use ec_core::operator::selector::Selector;
use ec_core::test_results::{Error, TestResults};
use ec_core::weighted::weighted_pair::WeightedPair;
use ec_core::weighted::Weighted;
use ec_linear::genome::bitstring::Bitstring;
use ec_linear::mutator::umad::Umad;
use ec_linear::mutator::with_rate::WithRate;
use ec_linear::recombinator::two_point_xo::TwoPointXo;
use ec_linear::recombinator::uniform_xo::UniformXo;
use rand::distr::Distribution;
use std::num::NonZeroUsize;

pub const HARNESSES: &[(&str, fn())] = &[
    ("c16_selectors", c16_selectors),
    ("c16_weighted", c16_weighted),
    ("c16_lexicase", c16_lexicase),
    ("c16_variation", c16_variation),
    ("c16_generators", c16_generators),
    ("c16_umad", c16_umad),
    ("c16_umad_empty", c16_umad_empty),
];

pub fn c16_selectors() {
    let pop = sym_pop(3);
    let tape = TapeRng::<6>::symbolic();
    let t = Tournament::binary();
    let (mut r1, mut r2) = (tape.restart(), tape.restart());
    let (a, b) = (t.select(&pop, &mut r1), t.select(&pop, &mut r2));
    check!(a.is_ok() == b.is_ok() && r1.pos == r2.pos, "tournament: equal generator states give equal outcomes and equal generator states afterwards");
    if let (Ok(a), Ok(b)) = (a, b) {
        check!(std::ptr::eq(a, b), "tournament: equal generator states select the same individual");
    }
    let (mut r1, mut r2) = (tape.restart(), tape.restart());
    let (a, b) = (Random.select(&pop, &mut r1), Random.select(&pop, &mut r2));
    check!(r1.pos == r2.pos && matches!((a, b), (Ok(x), Ok(y)) if std::ptr::eq(x, y)), "random selection is a function of the generator state");
    cover!(r1.pos > 0, "randomness is consumed");
}
#[cfg(kani)]
#[kani::proof]
#[kani::unwind(8)]
fn p_c16_selectors() {
    c16_selectors()
}

pub fn c16_weighted() {
    let pop = sym_pop(2);
    let tape = TapeRng::<6>::symbolic();
    let w = WeightedPair::new(Weighted::new(Random, 1), Weighted::new(Random, 3)).unwrap();
    let (mut r1, mut r2) = (tape.restart(), tape.restart());
    let (a, b) = (w.select(&pop, &mut r1), w.select(&pop, &mut r2));
    check!(r1.pos == r2.pos && a.is_ok() == b.is_ok(), "weighted pair: equal generator states give equal outcomes");
    if let (Ok(a), Ok(b)) = (a, b) {
        check!(std::ptr::eq(a, b), "weighted pair: equal generator states select the same individual");
    }
    cover!(r1.pos > 1, "coin and member both consume randomness");
}
#[cfg(kani)]
#[kani::proof]
#[kani::unwind(8)]
fn p_c16_weighted() {
    c16_weighted()
}

pub fn c16_lexicase() {
    let mk = |tag: u8| EcIndividual::new(tag, TestResults { results: vec![Error(any_i64())], total_result: Error(0i64) });
    let pop = vec![mk(0), mk(1)];
    let tape = TapeRng::<6>::symbolic();
    let (mut r1, mut r2) = (tape.restart(), tape.restart());
    let l = Lexicase::new(1);
    let (a, b) = (l.select(&pop, &mut r1), l.select(&pop, &mut r2));
    check!(r1.pos == r2.pos && a.is_ok() == b.is_ok(), "lexicase: equal generator states give equal outcomes and equal generator states afterwards");
    if let (Ok(a), Ok(b)) = (a, b) {
        check!(std::ptr::eq(a, b), "lexicase: equal generator states select the same individual");
    }
    cover!(r1.pos > 0, "randomness is consumed");
}
// not registered: does not finish within 1500 s (two lexicase runs); Lexicase::select's determinism is the Verus contract of C08
#[cfg(kani)]
#[kani::proof]
#[kani::unwind(8)]
fn p_c16_lexicase() {
    c16_lexicase()
}

pub fn c16_variation() {
    let tape = TapeRng::<6>::symbolic();
    let a: Vec<u8> = vec![1, 2, 3];
    let b: Vec<u8> = vec![11, 12, 13];
    let (mut r1, mut r2) = (tape.restart(), tape.restart());
    let (x, y) = (TwoPointXo.recombine([a.clone(), b.clone()], &mut r1), TwoPointXo.recombine([a.clone(), b.clone()], &mut r2));
    check!(x.is_ok() && y.is_ok() && x.ok() == y.ok() && r1.pos == r2.pos, "two-point crossover is a function of the parents and the generator state");
    let (mut r1, mut r2) = (tape.restart(), tape.restart());
    let (x, y) = (UniformXo.recombine([a.clone(), b.clone()], &mut r1), UniformXo.recombine([a.clone(), b.clone()], &mut r2));
    check!(x.is_ok() && x.ok() == y.ok() && r1.pos == r2.pos, "uniform crossover is a function of the parents and the generator state");
    let rate = any_f32();
    assume(rate >= 0.0 && rate <= 1.0);
    let g = vec![TG { tag: 0, v: true }, TG { tag: 1, v: false }];
    let m = WithRate::new(rate);
    let (mut r1, mut r2) = (tape.restart(), tape.restart());
    let (Ok(x), Ok(y)) = (m.mutate(g.clone(), &mut r1), m.mutate(g.clone(), &mut r2));
    check!(x == y && r1.pos == r2.pos, "bit-flip mutation is a function of the genome and the generator state");
    let bs = Bitstring { bits: vec![true, false] };
    let (mut r1, mut r2) = (tape.restart(), tape.restart());
    let (Ok(x), Ok(y)) = (m.mutate(bs.clone(), &mut r1), m.mutate(bs.clone(), &mut r2));
    check!(x == y && r1.pos == r2.pos, "bit-flip mutation of a bitstring is a function of the genome and the generator state");
    cover!(r1.pos == 2, "one word per gene");
}
#[cfg(kani)]
#[kani::proof]
#[kani::unwind(8)]
fn p_c16_variation() {
    c16_variation()
}

pub fn c16_generators() {
    let tape = TapeRng::<6>::symbolic();
    let (mut r1, mut r2) = (tape.restart(), tape.restart());
    let (x, y) = (Bitstring::random(3, &mut r1), Bitstring::random(3, &mut r2));
    check!(x == y && r1.pos == r2.pos, "Bitstring::random is a function of the generator state");
    let (mut r1, mut r2) = (tape.restart(), tape.restart());
    let (x, y) = (Bitstring::random_with_probability(2, 0.25, &mut r1), Bitstring::random_with_probability(2, 0.25, &mut r2));
    check!(x == y && r1.pos == r2.pos, "Bitstring::random_with_probability is a function of the generator state");
    let d = OneOfCloning::new(vec![5u8, 6, 7]).unwrap();
    let (mut r1, mut r2) = (tape.restart(), tape.restart());
    let (x, y): (u8, u8) = (d.sample(&mut r1), d.sample(&mut r2));
    check!(x == y && r1.pos == r2.pos, "a uniform choice is a function of the generator state");
    let (mut r1, mut r2) = (tape.restart(), tape.restart());
    let g = (&d).into_collection_generator(2);
    let (x, y): (Vec<u8>, Vec<u8>) = (g.sample(&mut r1), g.sample(&mut r2));
    check!(x == y && r1.pos == r2.pos, "a collection generator is a function of the generator state");
    let ig = (&d).with_scorer(FnScorer(|g: &u8| *g as i64));
    let (mut r1, mut r2) = (tape.restart(), tape.restart());
    let (x, y): (EcIndividual<u8, i64>, EcIndividual<u8, i64>) = (ig.sample(&mut r1), ig.sample(&mut r2));
    check!(x == y && r1.pos == r2.pos, "an individual generator is a function of the generator state");
    cover!(r1.pos > 0, "randomness is consumed");
}
#[cfg(kani)]
#[kani::proof]
#[kani::unwind(8)]
fn p_c16_generators() {
    c16_generators()
}

/// the empty-parent branch of UMAD (its own code path): coin and new gene both come from the supplied stream
pub fn c16_umad_empty() {
    let tape = TapeRng::<6>::symbolic();
    let u = Umad::new_with_empty_rate(0.5, 1.0, 0.25, NewGene);
    let g = ArrG { genes: [3; 12], len: 0 };
    let (mut r1, mut r2) = (tape.restart(), tape.restart());
    let (Ok(x), Ok(y)) = (u.mutate(g, &mut r1), u.mutate(g, &mut r2));
    check!(x.len == y.len && x.genes[0] == y.genes[0] && r1.pos == r2.pos, "UMAD on an empty parent is a function of the generator state");
    check!(x.len == 1 && r1.pos >= 1, "the new gene is drawn from the supplied generator");
    cover!(x.len == 1, "insertion into the empty parent reachable");
}
#[cfg(kani)]
#[kani::proof]
#[kani::unwind(8)]
fn p_c16_umad_empty() {
    c16_umad_empty()
}

pub fn c16_umad() {
    let tape = TapeRng::<6>::symbolic();
    let u = Umad::new(0.5, 0.25, NewGene);
    let g = ArrG { genes: [3; 12], len: 1 };
    let (mut r1, mut r2) = (tape.restart(), tape.restart());
    let (Ok(x), Ok(y)) = (u.mutate(g, &mut r1), u.mutate(g, &mut r2));
    check!(x.len == y.len && x.genes[0] == y.genes[0] && x.genes[1] == y.genes[1] && r1.pos == r2.pos, "UMAD is a function of the genome and the generator state");
    cover!(x.len == 2, "insertion reachable");
}
// not registered: does not finish within 1500 s (two UMAD runs over std's FlatMap); c16_umad_empty covers the branch that samples
#[cfg(kani)]
#[kani::proof]
#[kani::unwind(8)]
fn p_c16_umad() {
    c16_umad()
}

#[cfg(kani)]
#[kani::proof]
fn p_probe_a() {
    // ChaCha block function alone
    use rand::SeedableRng;
    let mut r = rand_chacha_probe();
    let _ = rand::RngCore::next_u32(&mut r);
}
#[cfg(kani)]
fn rand_chacha_probe() -> rand::rngs::StdRng {
    use rand::SeedableRng;
    rand::rngs::StdRng::seed_from_u64(1)
}
#[cfg(kani)]
#[kani::proof]
fn p_probe_b() {
    let _ = rand::rng();
}
