//! Symbolic value source shared by the Kani proofs and the stable-toolchain replay binary.
//! Under `cfg(kani)` every `any_*` is `kani::any()`; otherwise values are popped from a tape of
//! byte vectors (the concrete values Kani printed for a failing harness), so the *same* harness
//! body runs against the real crates on the ordinary toolchain.

#[cfg(not(kani))]
pub mod tape {
    use std::cell::RefCell;
    thread_local! {
        pub static TAPE: RefCell<(Vec<Vec<u8>>, usize)> = const { RefCell::new((Vec::new(), 0)) };
        pub static FAILED: RefCell<Vec<String>> = const { RefCell::new(Vec::new()) };
        pub static COVERED: RefCell<Vec<String>> = const { RefCell::new(Vec::new()) };
        /// description of the input currently being executed (native enumeration runs): attached to a failed obligation
        pub static CONTEXT: RefCell<String> = const { RefCell::new(String::new()) };
    }
    pub struct AssumeFailed;
    pub fn load(t: Vec<Vec<u8>>) {
        TAPE.with(|c| *c.borrow_mut() = (t, 0));
        FAILED.with(|c| c.borrow_mut().clear());
    }
    pub fn next<const N: usize>() -> [u8; N] {
        TAPE.with(|c| {
            let mut c = c.borrow_mut();
            let i = c.1;
            c.1 += 1;
            let mut out = [0u8; N];
            if let Some(v) = c.0.get(i) {
                for (k, b) in v.iter().take(N).enumerate() {
                    out[k] = *b;
                }
            }
            out
        })
    }
}

macro_rules! any_fn {
    ($name:ident, $t:ty, $n:expr) => {
        #[cfg(kani)]
        #[inline(always)]
        pub fn $name() -> $t {
            kani::any()
        }
        #[cfg(not(kani))]
        pub fn $name() -> $t {
            <$t>::from_le_bytes(tape::next::<$n>())
        }
    };
}
any_fn!(any_u8, u8, 1);
any_fn!(any_u32, u32, 4);
any_fn!(any_u64, u64, 8);
any_fn!(any_i64, i64, 8);
any_fn!(any_i32, i32, 4);
any_fn!(any_usize, usize, 8);
any_fn!(any_f32, f32, 4);
any_fn!(any_f64, f64, 8);

#[cfg(kani)]
#[inline(always)]
pub fn any_bool() -> bool {
    kani::any()
}
#[cfg(not(kani))]
pub fn any_bool() -> bool {
    tape::next::<1>()[0] & 1 == 1
}

/// a symbolic value in `0..=max`
pub fn any_upto(max: usize) -> usize {
    let v = any_usize();
    assume(v <= max);
    v
}

#[cfg(kani)]
#[inline(always)]
pub fn assume(c: bool) {
    kani::assume(c);
}
#[cfg(not(kani))]
pub fn assume(c: bool) {
    if !c {
        std::panic::panic_any(tape::AssumeFailed);
    }
}

/// an obligation of the harness: `assert` under Kani, recorded (not panicking) under replay
#[cfg(not(kani))]
pub fn check_fn(c: bool, label: &'static str) {
    if !c {
        let ctx = tape::CONTEXT.with(|c| c.borrow().clone());
        tape::FAILED.with(|f| {
            let mut f = f.borrow_mut();
            // an enumeration reports each obligation once, with the first input that fails it
            if !f.iter().any(|l| l.starts_with(label)) {
                f.push(if ctx.is_empty() { label.to_string() } else { format!("{label} [input: {ctx}]") });
            }
        });
    }
}
#[cfg(kani)]
#[macro_export]
macro_rules! check {
    ($c:expr, $l:literal) => {
        kani::assert($c, $l)
    };
}
#[cfg(not(kani))]
#[macro_export]
macro_rules! check {
    ($c:expr, $l:literal) => {
        $crate::sym::check_fn($c, $l)
    };
}

/// reachability witness (must be SATISFIED): guards against vacuous harnesses and proves "can occur" clauses
#[cfg(not(kani))]
pub fn cover_fn(c: bool, label: &'static str) {
    if c {
        tape::COVERED.with(|f| f.borrow_mut().push(label.to_string()));
    }
}
#[cfg(kani)]
#[macro_export]
macro_rules! cover {
    ($c:expr, $l:literal) => {
        kani::cover($c, $l)
    };
}
#[cfg(not(kani))]
#[macro_export]
macro_rules! cover {
    ($c:expr, $l:literal) => {
        $crate::sym::cover_fn($c, $l)
    };
}

/// Symbolic random stream: every word handed to `rand` is an unconstrained symbolic value, so a harness
/// quantifies over *all* random streams.  After `budget` words the stream continues with all-ones words
/// (which every rejection-sampling loop in rand 0.9 accepts), so loops inside `rand` terminate within the
/// unwinding bound; harnesses that need more than `budget` symbolic words say so in their bound.
pub struct SymRng {
    pub drawn: usize,
    pub budget: usize,
}
impl SymRng {
    pub fn new(budget: usize) -> Self {
        Self { drawn: 0, budget }
    }
    fn word(&mut self) -> u64 {
        self.drawn += 1;
        if self.drawn <= self.budget {
            any_u64()
        } else {
            u64::MAX
        }
    }
}
impl rand::RngCore for SymRng {
    fn next_u32(&mut self) -> u32 {
        (self.word() >> 32) as u32
    }
    fn next_u64(&mut self) -> u64 {
        self.word()
    }
    fn fill_bytes(&mut self, dst: &mut [u8]) {
        for b in dst.iter_mut() {
            *b = (self.word() >> 56) as u8;
        }
    }
}

/// Random stream replaying a fixed tape of words (used for self-composition: the same symbolic words twice)
pub struct TapeRng<const K: usize> {
    pub tape: [u64; K],
    pub pos: usize,
}
impl<const K: usize> TapeRng<K> {
    pub fn symbolic() -> Self {
        let mut tape = [0u64; K];
        let mut i = 0;
        while i < K {
            tape[i] = any_u64();
            i += 1;
        }
        Self { tape, pos: 0 }
    }
    pub fn restart(&self) -> Self {
        Self { tape: self.tape, pos: 0 }
    }
    fn word(&mut self) -> u64 {
        let w = if self.pos < K { self.tape[self.pos] } else { u64::MAX };
        self.pos += 1;
        w
    }
}
impl<const K: usize> rand::RngCore for TapeRng<K> {
    fn next_u32(&mut self) -> u32 {
        (self.word() >> 32) as u32
    }
    fn next_u64(&mut self) -> u64 {
        self.word()
    }
    fn fill_bytes(&mut self, dst: &mut [u8]) {
        for b in dst.iter_mut() {
            *b = (self.word() >> 56) as u8;
        }
    }
}

/// contents comparison without slice equality (which compiles to memcmp and needs byte-length unwinding):
/// `m` is bottom-first
pub fn stack_is<T: Clone + PartialEq>(s: &push::push_vm::stack::Stack<T>, m: &[T]) -> bool {
    if s.size() != m.len() {
        return false;
    }
    let mut c = s.clone();
    let mut k = m.len();
    let mut ok = true;
    while k > 0 {
        k -= 1;
        match c.pop() {
            Ok(v) => {
                if v != m[k] {
                    ok = false;
                }
            }
            Err(_) => ok = false,
        }
    }
    ok
}

/// contents comparison through the read-only API (no clone, no loop): complete up to depth 3; at depth 4+ the three
/// top elements and the size are compared (`m` is bottom-first)
pub fn stack_matches<T: PartialEq>(s: &push::push_vm::stack::Stack<T>, m: &[T]) -> bool {
    let n = m.len();
    if s.size() != n {
        return false;
    }
    match n {
        0 => true,
        1 => matches!(s.top(), Ok(a) if *a == m[0]),
        2 => matches!(s.top2(), Ok((a, b)) if *a == m[1] && *b == m[0]),
        _ => matches!(s.top3(), Ok((a, b, c)) if *a == m[n - 1] && *b == m[n - 2] && *c == m[n - 3]),
    }
}

/// native enumeration runs: names the input being executed (no-op under Kani)
#[cfg(not(kani))]
pub fn context(f: impl FnOnce() -> String) {
    let s = f();
    tape::CONTEXT.with(|c| *c.borrow_mut() = s);
}
#[cfg(kani)]
#[inline(always)]
pub fn context(_f: impl FnOnce() -> String) {}
