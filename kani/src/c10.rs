//! C10 — crossover recombines parental genes position-wise and reports misuse as errors.
use crate::sym::*;
use crate::{check, cover};
use ec_core::operator::recombinator::Recombinator;
use ec_linear::genome::bitstring::Bitstring;
use ec_linear::genome::Linear;
use ec_linear::recombinator::crossover::Crossover;
use ec_linear::recombinator::errors::{CrossoverGeneError, DifferentGenomeLength};
use ec_linear::recombinator::two_point_xo::TwoPointXo;
use ec_linear::recombinator::uniform_xo::UniformXo;


pub const HARNESSES: &[(&str, fn())] = &[
    ("c10_two_point_vec", c10_two_point_vec::<3, D3>),
    ("c10_two_point_vec_n5", c10_two_point_vec::<5, NoDetail>),
    ("c10_two_point_vec_tuple", c10_two_point_vec_tuple::<3, D3>),
    ("c10_two_point_vec_tuple_n5", c10_two_point_vec_tuple::<5, NoDetail>),
    ("c10_uniform_vec", c10_uniform_vec::<3, D3>),
    ("c10_uniform_vec_n5", c10_uniform_vec::<5, NoDetail>),
    ("c10_two_point_bitstring", c10_two_point_bitstring::<3, D3>),
    ("c10_two_point_bitstring_n5", c10_two_point_bitstring::<5, NoDetail>),
    ("c10_uniform_bitstring", c10_uniform_bitstring::<3, D3>),
    ("c10_uniform_bitstring_n5", c10_uniform_bitstring::<5, NoDetail>),
    ("c10_bitstring_gene", c10_bitstring_gene::<3, D3>),
    ("c10_bitstring_gene_n5", c10_bitstring_gene::<5, NoDetail>),
    ("c10_bitstring_segment", c10_bitstring_segment::<3, D3>),
    ("c10_bitstring_segment_n5", c10_bitstring_segment::<5, NoDetail>),
];

/// tagged parents: gene value encodes (parent, position)
fn tagged(len: usize, base: u8) -> Vec<u8> {
    let mut v = Vec::new();
    let mut i = 0;
    while i < len {
        v.push(base + i as u8);
        i += 1;
    }
    v
}

/// from_b[i] for a child of tagged parents; checks "gene at every position is the gene one of the parents had there"
fn origins<const N: usize>(child: &[u8], len: usize) -> [bool; N] {
    let mut from_b = [false; N];
    check!(child.len() == len, "child has the parents' length");
    let mut i = 0;
    while i < N {
        if i < len && i < child.len() {
            let g = child[i];
            check!(g == i as u8 || g == 100 + i as u8, "child gene at position i is the gene one parent had at position i");
            from_b[i] = g == 100 + i as u8;
        }
        i += 1;
    }
    from_b
}

/// two-point: the second parent's genes form one contiguous segment; every segment can occur
pub trait Detail {
    fn two_point(from_b: &[bool]);
    fn uniform(code: usize);
}
pub struct D3;
pub struct NoDetail;
impl Detail for NoDetail {
    fn two_point(_: &[bool]) {}
    fn uniform(_: usize) {}
}
impl Detail for D3 {
    fn two_point(from_b: &[bool]) {
        let f = (from_b[0], from_b[1], from_b[2]);
        cover!(f == (false, false, false), "two-point: empty segment occurs");
        cover!(f == (true, false, false), "two-point: segment [0,1) (touches the left end) occurs");
        cover!(f == (true, true, false), "two-point: segment [0,2) occurs");
        cover!(f == (true, true, true), "two-point: segment [0,3) (whole genome, touches both ends) occurs");
        cover!(f == (false, true, false), "two-point: segment [1,2) occurs");
        cover!(f == (false, true, true), "two-point: segment [1,3) (touches the right end) occurs");
        cover!(f == (false, false, true), "two-point: segment [2,3) (touches the right end) occurs");
    }
    fn uniform(code: usize) {
        uniform_covers(code);
    }
}

fn two_point_shape<const N: usize, X: Detail>(from_b: &[bool; N], len: usize) {
    // contiguity: pattern A* B* A*
    let mut changes = 0;
    let mut prev = false;
    let mut i = 0;
    while i < N {
        if i < len {
            if from_b[i] != prev {
                changes += 1;
            }
            prev = from_b[i];
        }
        i += 1;
    }
    check!(changes <= 2, "genes taken from the second parent form one contiguous segment");
    if len == N {
        X::two_point(from_b);
    }
    if len == N && N > 0 {
        let mut all = true;
        let mut none = true;
        let mut k = 0;
        while k < N {
            all = all && from_b[k];
            none = none && !from_b[k];
            k += 1;
        }
        cover!(all, "two-point: the whole genome can come from the second parent");
        cover!(none, "two-point: the empty segment occurs");
        cover!(from_b[N - 1] && !from_b[0], "two-point: a segment touching only the right end occurs");
        cover!(from_b[0] && !from_b[N - 1], "two-point: a segment touching only the left end occurs");
    }
}

pub fn c10_two_point_vec<const N: usize, X: Detail>() {
    let (la, lb) = (any_upto(N), any_upto(N));
    let (a, b) = (tagged(la, 0), tagged(lb, 100));
    let mut rng = SymRng::new(N + 1);
    match TwoPointXo.recombine([a, b], &mut rng) {
        Err(DifferentGenomeLength(x, y)) => {
            check!(la != lb, "equal-length parents recombine without error");
            check!(x == la && y == lb, "DifferentGenomeLength reports both lengths");
        }
        Ok(child) => {
            check!(la == lb, "parents of different lengths are reported as DifferentGenomeLength");
            let fb = origins::<N>(&child, la);
            two_point_shape::<N, X>(&fb, la);
            cover!(la == 0, "empty parents give an empty child");
        }
    }
}
#[cfg(kani)]
#[kani::proof]
#[kani::unwind(6)]
fn p_c10_two_point_vec() {
    c10_two_point_vec::<3, D3>()
}
#[cfg(kani)]
#[kani::proof]
#[kani::unwind(8)]
fn p_c10_two_point_vec_n5() {
    c10_two_point_vec::<5, NoDetail>()
}

pub fn c10_two_point_vec_tuple<const N: usize, X: Detail>() {
    let (la, lb) = (any_upto(N), any_upto(N));
    let (a, b) = (tagged(la, 0), tagged(lb, 100));
    let mut rng = SymRng::new(N + 1);
    match TwoPointXo.recombine((a, b), &mut rng) {
        Err(DifferentGenomeLength(x, y)) => {
            check!(la != lb, "equal-length parents recombine without error");
            check!(x == la && y == lb, "DifferentGenomeLength reports both lengths");
        }
        Ok(child) => {
            check!(la == lb, "parents of different lengths are reported as DifferentGenomeLength");
            let fb = origins::<N>(&child, la);
            two_point_shape::<N, X>(&fb, la);
        }
    }
}
#[cfg(kani)]
#[kani::proof]
#[kani::unwind(6)]
fn p_c10_two_point_vec_tuple() {
    c10_two_point_vec_tuple::<3, D3>()
}
#[cfg(kani)]
#[kani::proof]
#[kani::unwind(8)]
fn p_c10_two_point_vec_tuple_n5() {
    c10_two_point_vec_tuple::<5, NoDetail>()
}

fn uniform_general(bits: &[bool]) {
    let mut all = true;
    let mut none = true;
    let mut k = 0;
    while k < bits.len() {
        all = all && bits[k];
        none = none && !bits[k];
        k += 1;
    }
    cover!(all && bits.len() > 0, "uniform: every gene can come from the second parent");
    cover!(none && bits.len() > 0, "uniform: every gene can come from the first parent");
    cover!(!all && !none, "uniform: a mixed child occurs");
}

fn uniform_covers(code: usize) {
    cover!(code == 0, "uniform: origin pattern AAA occurs");
    cover!(code == 1, "uniform: origin pattern BAA occurs");
    cover!(code == 2, "uniform: origin pattern ABA occurs");
    cover!(code == 3, "uniform: origin pattern BBA occurs");
    cover!(code == 4, "uniform: origin pattern AAB occurs");
    cover!(code == 5, "uniform: origin pattern BAB occurs");
    cover!(code == 6, "uniform: origin pattern ABB occurs");
    cover!(code == 7, "uniform: origin pattern BBB occurs");
}

pub fn c10_uniform_vec<const N: usize, X: Detail>() {
    let (la, lb) = (any_upto(N), any_upto(N));
    let (a, b) = (tagged(la, 0), tagged(lb, 100));
    let mut rng = SymRng::new(N + 1);
    match UniformXo.recombine([a, b], &mut rng) {
        Err(DifferentGenomeLength(x, y)) => {
            check!(la != lb, "equal-length parents recombine without error");
            check!(x == la && y == lb, "DifferentGenomeLength reports both lengths");
        }
        Ok(child) => {
            check!(la == lb, "parents of different lengths are reported as DifferentGenomeLength");
            let fb = origins::<N>(&child, la);
            check!(rng.drawn == la, "uniform crossover draws exactly one random word per position");
            if la == N {
                uniform_general(&fb);
            }
            if la == N && N >= 3 {
                // every position decided independently: all 2^N origin patterns occur
                let code = (fb[0] as usize) | ((fb[1] as usize) << 1) | ((fb[2] as usize) << 2);
                X::uniform(code);
            }
        }
    }
}
#[cfg(kani)]
#[kani::proof]
#[kani::unwind(6)]
fn p_c10_uniform_vec() {
    c10_uniform_vec::<3, D3>()
}
#[cfg(kani)]
#[kani::proof]
#[kani::unwind(8)]
fn p_c10_uniform_vec_n5() {
    c10_uniform_vec::<5, NoDetail>()
}

fn filled(len: usize, v: bool) -> Vec<bool> {
    let mut bits = Vec::new();
    let mut i = 0;
    while i < len {
        bits.push(v);
        i += 1;
    }
    bits
}

fn sym_bits(len: usize) -> Bitstring {
    let mut bits = Vec::new();
    let mut i = 0;
    while i < len {
        bits.push(any_bool());
        i += 1;
    }
    Bitstring { bits }
}

/// Bitstring genes are bools, so origin is checked per position against both parents
fn bit_origin_ok<const N: usize>(child: &Bitstring, a: &[bool], b: &[bool]) {
    check!(child.bits.len() == a.len(), "child has the parents' length");
    let mut i = 0;
    while i < N {
        if i < a.len() && i < child.bits.len() {
            check!(child.bits[i] == a[i] || child.bits[i] == b[i], "child gene at position i is the gene one parent had at position i");
        }
        i += 1;
    }
}

pub fn c10_two_point_bitstring<const N: usize, X: Detail>() {
    let (la, lb) = (any_upto(N), any_upto(N));
    // tagged: a = all false, b = all true, so origin is visible
    let a = Bitstring { bits: filled(la, false) };
    let b = Bitstring { bits: filled(lb, true) };
    let mut rng = SymRng::new(N + 1);
    match TwoPointXo.recombine([a, b], &mut rng) {
        Err(CrossoverGeneError::DifferentGenomeLength(DifferentGenomeLength(x, y))) => {
            check!(la != lb, "equal-length parents recombine without error");
            check!(x == la && y == lb, "DifferentGenomeLength reports both lengths");
        }
        Err(CrossoverGeneError::Crossover(_)) => check!(false, "two-point crossover of equal-length bitstrings does not fail"),
        Ok(child) => {
            check!(la == lb, "parents of different lengths are reported as DifferentGenomeLength");
            check!(child.bits.len() == la, "child has the parents' length");
            let mut fb = [false; N];
            let mut i = 0;
            while i < N {
                if i < child.bits.len() {
                    fb[i] = child.bits[i];
                }
                i += 1;
            }
            two_point_shape::<N, X>(&fb, la);
            cover!(la == 0, "empty parents give an empty child");
        }
    }
}
#[cfg(kani)]
#[kani::proof]
#[kani::unwind(6)]
fn p_c10_two_point_bitstring() {
    c10_two_point_bitstring::<3, D3>()
}
#[cfg(kani)]
#[kani::proof]
#[kani::unwind(8)]
fn p_c10_two_point_bitstring_n5() {
    c10_two_point_bitstring::<5, NoDetail>()
}

pub fn c10_uniform_bitstring<const N: usize, X: Detail>() {
    let (la, lb) = (any_upto(N), any_upto(N));
    let a = Bitstring { bits: filled(la, false) };
    let b = Bitstring { bits: filled(lb, true) };
    let mut rng = SymRng::new(N + 1);
    match UniformXo.recombine((a, b), &mut rng) {
        Err(CrossoverGeneError::DifferentGenomeLength(DifferentGenomeLength(x, y))) => {
            check!(la != lb, "equal-length parents recombine without error");
            check!(x == la && y == lb, "DifferentGenomeLength reports both lengths");
        }
        Err(CrossoverGeneError::Crossover(_)) => check!(false, "uniform crossover of equal-length bitstrings does not fail"),
        Ok(child) => {
            check!(la == lb, "parents of different lengths are reported as DifferentGenomeLength");
            check!(child.bits.len() == la, "child has the parents' length");
            check!(rng.drawn == la, "uniform crossover draws exactly one random word per position");
            if la == N {
                uniform_general(&child.bits);
            }
            if la == N && N >= 3 {
                let code = (child.bits[0] as usize) | ((child.bits[1] as usize) << 1) | ((child.bits[2] as usize) << 2);
                X::uniform(code);
            }
        }
    }
}
#[cfg(kani)]
#[kani::proof]
#[kani::unwind(6)]
fn p_c10_uniform_bitstring() {
    c10_uniform_bitstring::<3, D3>()
}
#[cfg(kani)]
#[kani::proof]
#[kani::unwind(8)]
fn p_c10_uniform_bitstring_n5() {
    c10_uniform_bitstring::<5, NoDetail>()
}

pub fn c10_bitstring_gene<const N: usize, X: Detail>() {
    let (la, lb) = (any_upto(N), any_upto(N));
    let (mut a, mut b) = (sym_bits(la), sym_bits(lb));
    let (a0, b0) = (a.bits.clone(), b.bits.clone());
    let index = any_upto(N + 2);
    let r = a.crossover_gene(&mut b, index);
    check!(a.bits.len() == la && b.bits.len() == lb, "an exchange never changes a genome's length");
    let inside = index < la && index < lb;
    check!(r.is_ok() == inside, "crossover_gene: Ok iff the index addresses a gene of both genomes, Err (not a panic) otherwise");
    let mut i = 0;
    while i < N {
        let swapped = r.is_ok() && i == index;
        if i < la {
            check!(a.bits[i] == if swapped { b0[i] } else { a0[i] }, "crossover_gene swaps exactly the addressed gene and nothing else (self)");
        }
        if i < lb {
            check!(b.bits[i] == if swapped { a0[i] } else { b0[i] }, "crossover_gene swaps exactly the addressed gene and nothing else (other)");
        }
        i += 1;
    }
    cover!(r.is_ok(), "crossover_gene succeeds for an in-range index");
    cover!(r.is_err(), "crossover_gene reports an out-of-range index");
}
#[cfg(kani)]
#[kani::proof]
#[kani::unwind(6)]
fn p_c10_bitstring_gene() {
    c10_bitstring_gene::<3, D3>()
}
#[cfg(kani)]
#[kani::proof]
#[kani::unwind(8)]
fn p_c10_bitstring_gene_n5() {
    c10_bitstring_gene::<5, NoDetail>()
}

pub fn c10_bitstring_segment<const N: usize, X: Detail>() {
    let (la, lb) = (any_upto(N), any_upto(N));
    let (mut a, mut b) = (sym_bits(la), sym_bits(lb));
    let (a0, b0) = (a.bits.clone(), b.bits.clone());
    let (start, end) = (any_upto(N + 2), any_upto(N + 2));
    // the property speaks about segments *outside either genome*; a reversed range is not a segment
    assume(start <= end);
    let r = a.crossover_segment(&mut b, start..end);
    check!(a.bits.len() == la && b.bits.len() == lb, "an exchange never changes a genome's length");
    let inside = end <= la && end <= lb;
    check!(r.is_ok() == inside, "crossover_segment: Ok iff the range lies inside both genomes, Err (not a panic) otherwise");
    let mut i = 0;
    while i < N {
        let swapped = r.is_ok() && start <= i && i < end;
        if i < la {
            check!(a.bits[i] == if swapped { b0[i] } else { a0[i] }, "crossover_segment swaps exactly the addressed genes and nothing else (self)");
        }
        if i < lb {
            check!(b.bits[i] == if swapped { a0[i] } else { b0[i] }, "crossover_segment swaps exactly the addressed genes and nothing else (other)");
        }
        i += 1;
    }
    cover!(r.is_ok() && end > start, "crossover_segment succeeds for an in-range non-empty segment");
    cover!(r.is_err(), "crossover_segment reports an out-of-range segment");
}
#[cfg(kani)]
#[kani::proof]
#[kani::unwind(6)]
fn p_c10_bitstring_segment() {
    c10_bitstring_segment::<3, D3>()
}
#[cfg(kani)]
#[kani::proof]
#[kani::unwind(8)]
fn p_c10_bitstring_segment_n5() {
    c10_bitstring_segment::<5, NoDetail>()
}
