//! kh-replay <harness> <tape.json>: runs a harness body on the concrete values of a Kani counterexample,
//! against the real crates on the ordinary toolchain.  exit 1 = the obligation fails concretely (or the
//! code under test panics); exit 0 = no failure reproduced; exit 3 = the tape violates an assumption.
#[cfg(kani)]
fn main() {}
#[cfg(not(kani))]
use kh::sym::tape;
#[cfg(not(kani))]
fn main() {
    let args: Vec<String> = std::env::args().collect();
    if args.len() < 3 {
        eprintln!("usage: kh-replay <harness> <tape.json>");
        std::process::exit(2);
    }
    let txt = std::fs::read_to_string(&args[2]).expect("tape file");
    // minimal JSON: [[1,2],[3]]
    let mut tapev: Vec<Vec<u8>> = Vec::new();
    let mut cur: Option<Vec<u8>> = None;
    let mut num = String::new();
    let mut depth = 0;
    for ch in txt.chars() {
        match ch {
            '[' => {
                depth += 1;
                if depth == 2 {
                    cur = Some(Vec::new());
                }
            }
            ']' | ',' => {
                if !num.is_empty() {
                    if let Some(c) = cur.as_mut() {
                        c.push(num.parse::<u16>().unwrap_or(0) as u8);
                    }
                    num.clear();
                }
                if ch == ']' {
                    if depth == 2 {
                        tapev.push(cur.take().unwrap_or_default());
                    }
                    depth -= 1;
                }
            }
            d if d.is_ascii_digit() => num.push(d),
            _ => {}
        }
    }
    let Some((_, f)) = kh::registry().into_iter().find(|(n, _)| *n == args[1]) else {
        eprintln!("unknown harness {}", args[1]);
        std::process::exit(2);
    };
    tape::load(tapev);
    let r = std::panic::catch_unwind(f);
    match r {
        Err(e) => {
            if e.downcast_ref::<tape::AssumeFailed>().is_some() {
                println!("REPLAY: tape violates a harness assumption (not a counterexample)");
                std::process::exit(3);
            }
            let msg = e.downcast_ref::<String>().cloned().or_else(|| e.downcast_ref::<&str>().map(|s| s.to_string())).unwrap_or_default();
            println!("REPLAY: the real code PANICKED on this input: {msg}");
            std::process::exit(1);
        }
        Ok(()) => {
            for l in tape::COVERED.with(|f| f.borrow().clone()) {
                println!("REPLAY-COVER: {l}");
            }
            let failed = tape::FAILED.with(|f| f.borrow().clone());
            if failed.is_empty() {
                println!("REPLAY: no obligation failed on this input");
                std::process::exit(0);
            }
            for l in failed {
                println!("REPLAY: obligation failed on the real code: {l}");
            }
            std::process::exit(1);
        }
    }
}
