//! C06 — selectors return a member of the given population or a documented error; C07 — selection pressure.
use crate::sym::*;
use crate::{check, cover};
use ec_core::individual::ec::EcIndividual;
use ec_core::operator::selector::best::Best;
use ec_core::operator::selector::dyn_weighted::{DynWeighted, DynWeightedError};
use ec_core::operator::selector::lexicase::{Lexicase, LexicaseError};
use ec_core::operator::selector::random::Random;
use ec_core::operator::selector::tournament::{Tournament, TournamentSizeError};
use ec_core::operator::selector::worst::Worst;
use ec_core::operator::selector::{DynSelector, EmptyPopulation, Selector};
use ec_core::test_results::{Error, Score, TestResults};
use ec_core::weighted::error::{SelectionError, WeightedPairError, ZeroWeight};
use ec_core::weighted::weighted_pair::WeightedPair;
use ec_core::weighted::with_weighted_item::WithWeightedItem;
use ec_core::weighted::Weighted;
use std::num::NonZeroUsize;

pub const HARNESSES: &[(&str, fn())] = &[
    ("c06_best_worst", c06_best_worst::<3>),
    ("c06_best_worst_n5", c06_best_worst::<5>),
    ("c06_random", c06_random::<3>),
    ("c06_random_n5", c06_random::<5>),
    ("c06_tournament_3_1", c06_tournament::<3, 1>),
    ("c06_tournament_3_2", c06_tournament::<3, 2>),
    ("c06_tournament_3_3", c06_tournament::<3, 3>),
    ("c06_tournament_1_1", c06_tournament::<1, 1>),
    ("c06_tournament_4_2", c06_tournament::<4, 2>),
    ("c06_tournament_4_3", c06_tournament::<4, 3>),
    ("c06_tournament_5_2", c06_tournament::<5, 2>),
    ("c06_tournament_2_3", c06_tournament_oversized::<2, 3>),
    ("c06_tournament_0_1", c06_tournament_oversized::<0, 1>),
    ("c06_tournament_ranks", c06_tournament_ranks),
    ("c06_lexicase_empty", c06_lexicase_empty),
    ("c06_lexicase_missing", c06_lexicase_missing),
    ("c06_lexicase_single", c06_lexicase_single),
    ("c06_lexicase_ragged", c06_lexicase_ragged),
    ("c06_lexicase_one_case", c06_lexicase_one_case),
    ("c06_weighted", c06_weighted),
    ("c06_weighted_pair", c06_weighted_pair),
    ("c06_dyn_weighted", c06_dyn_weighted),
    ("c06_erased_and_ref", c06_erased_and_ref),
];

pub type Ind = EcIndividual<u8, i64>;

/// population of `len` individuals with symbolic fitness and symbolic genomes (equal genomes with different results
/// included); identity is by address
pub fn sym_pop(len: usize) -> Vec<Ind> {
    let mut v = Vec::new();
    let mut i = 0;
    while i < len {
        v.push(EcIndividual::new(any_u8(), any_i64()));
        i += 1;
    }
    v
}

/// index of `r` in `pop` by address (that very element, not a copy)
pub fn member_index<T>(pop: &[T], r: &T) -> Option<usize> {
    let mut i = 0;
    while i < pop.len() {
        if std::ptr::eq(&pop[i], r) {
            return Some(i);
        }
        i += 1;
    }
    None
}

pub fn c06_best_worst<const N: usize>() {
    let len = any_upto(N);
    let pop = sym_pop(len);
    let mut rng = SymRng::new(1);
    let b = Best.select(&pop, &mut rng);
    let w = Worst.select(&pop, &mut rng);
    check!(rng.drawn == 0, "best/worst selection consume no randomness");
    match (b, w) {
        (Err(EmptyPopulation), Err(EmptyPopulation)) => check!(len == 0, "EmptyPopulation is reported only for an empty population"),
        (Ok(b), Ok(w)) => {
            check!(len > 0, "an empty population is reported as EmptyPopulation");
            let (bi, wi) = (member_index(&pop, b), member_index(&pop, w));
            check!(bi.is_some() && wi.is_some(), "the selected individual is that very element of the population");
            let mut i = 0;
            while i < N {
                if i < len {
                    check!(b.test_results >= pop[i].test_results, "Best returns a maximal individual");
                    check!(w.test_results <= pop[i].test_results, "Worst returns a minimal individual");
                }
                i += 1;
            }
        }
        _ => check!(false, "best and worst agree on emptiness"),
    }
    cover!(len == 0, "empty population reachable");
    cover!(len == N, "full population reachable");
}
#[cfg(kani)]
#[kani::proof]
#[kani::unwind(6)]
fn p_c06_best_worst() {
    c06_best_worst::<3>()
}
#[cfg(kani)]
#[kani::proof]
#[kani::unwind(8)]
fn p_c06_best_worst_n5() {
    c06_best_worst::<5>()
}

pub fn c06_random<const N: usize>() {
    let len = any_upto(N);
    let pop = sym_pop(len);
    let mut rng = SymRng::new(3);
    match Random.select(&pop, &mut rng) {
        Err(EmptyPopulation) => check!(len == 0, "EmptyPopulation is reported only for an empty population"),
        Ok(r) => {
            check!(len > 0, "an empty population is reported as EmptyPopulation");
            let i = member_index(&pop, r);
            check!(i.is_some(), "the selected individual is that very element of the population");
            if len == N {
                cover!(i == Some(0), "random selection can return the first individual");
                cover!(i == Some(N - 1), "random selection can return the last individual");
            }
        }
    }
}
#[cfg(kani)]
#[kani::proof]
#[kani::unwind(6)]
fn p_c06_random() {
    c06_random::<3>()
}
#[cfg(kani)]
#[kani::proof]
#[kani::unwind(8)]
fn p_c06_random_n5() {
    c06_random::<5>()
}

/// tournament of size K on a population of N >= K individuals
pub fn c06_tournament<const N: usize, const K: usize>() {
    let pop = sym_pop(N);
    let mut rng = SymRng::new(2 * K + 2);
    match Tournament::new(NonZeroUsize::new(K).unwrap()).select(&pop, &mut rng) {
        Err(_) => check!(false, "a tournament that fits the population never fails"),
        Ok(r) => {
            let idx = member_index(&pop, r);
            check!(idx.is_some(), "the selected individual is that very element of the population");
            // C07: the winner is at least as good as k-1 OTHER members (refutes sampling with replacement and min-for-max)
            let mut not_better = 0;
            let mut i = 0;
            while i < N {
                if Some(i) != idx && pop[i].test_results <= r.test_results {
                    not_better += 1;
                }
                i += 1;
            }
            check!(not_better + 1 >= K, "the tournament winner is at least as good as k-1 other members of the population");
            if K == N {
                let mut i = 0;
                while i < N {
                    check!(r.test_results >= pop[i].test_results, "a tournament over the whole population is best selection");
                    i += 1;
                }
            }
            // every individual can win (for k = 1: uniform choice reaches everyone)
            cover!(idx == Some(0), "the first individual can win the tournament");
            cover!(idx == Some(N - 1), "the last individual can win the tournament");
        }
    }
}

/// every rank >= k can win: with distinct values the second-worst individual can win a binary tournament, the worst cannot
pub fn c06_tournament_ranks() {
    let pop = sym_pop(3);
    assume(pop[0].test_results < pop[1].test_results && pop[1].test_results < pop[2].test_results);
    let mut rng = SymRng::new(6);
    let r = Tournament::binary().select(&pop, &mut rng);
    let idx = r.ok().and_then(|r| member_index(&pop, r));
    check!(idx == Some(1) || idx == Some(2), "binary tournament: the worst of three distinct individuals never wins");
    cover!(idx == Some(1), "binary tournament: the second-worst individual can win");
    cover!(idx == Some(2), "binary tournament: the best individual can win");
}
#[cfg(kani)]
#[kani::proof]
#[kani::unwind(8)]
fn p_c06_tournament_ranks() {
    c06_tournament_ranks()
}

/// tournament larger than the population (including the empty population)
pub fn c06_tournament_oversized<const N: usize, const K: usize>() {
    let pop = sym_pop(N);
    let mut rng = SymRng::new(2);
    match Tournament::new(NonZeroUsize::new(K).unwrap()).select(&pop, &mut rng) {
        Err(e) => {
            check!(e == TournamentSizeError::new(NonZeroUsize::new(K).unwrap(), N), "TournamentSizeError reports tournament and population size");
            check!(rng.drawn == 0, "an oversized tournament consumes no randomness");
            cover!(true, "oversized tournament reported");
        }
        Ok(_) => check!(false, "a tournament larger than the population is reported as TournamentSizeError"),
    }
}
#[cfg(kani)]
#[kani::proof]
#[kani::unwind(7)]
fn p_c06_tournament_3_1() {
    c06_tournament::<3, 1>()
}
#[cfg(kani)]
#[kani::proof]
#[kani::unwind(7)]
fn p_c06_tournament_3_2() {
    c06_tournament::<3, 2>()
}
#[cfg(kani)]
#[kani::proof]
#[kani::unwind(7)]
fn p_c06_tournament_3_3() {
    c06_tournament::<3, 3>()
}
#[cfg(kani)]
#[kani::proof]
#[kani::unwind(5)]
fn p_c06_tournament_1_1() {
    c06_tournament::<1, 1>()
}
#[cfg(kani)]
#[kani::proof]
#[kani::unwind(8)]
fn p_c06_tournament_4_2() {
    c06_tournament::<4, 2>()
}
#[cfg(kani)]
#[kani::proof]
#[kani::unwind(8)]
fn p_c06_tournament_4_3() {
    c06_tournament::<4, 3>()
}
#[cfg(kani)]
#[kani::proof]
#[kani::unwind(9)]
fn p_c06_tournament_5_2() {
    c06_tournament::<5, 2>()
}
#[cfg(kani)]
#[kani::proof]
#[kani::unwind(7)]
fn p_c06_tournament_2_3() {
    c06_tournament_oversized::<2, 3>()
}
#[cfg(kani)]
#[kani::proof]
#[kani::unwind(5)]
fn p_c06_tournament_0_1() {
    c06_tournament_oversized::<0, 1>()
}

type LInd = EcIndividual<u8, TestResults<Error<i64>>>;
fn lex_ind(tag: u8, results: Vec<i64>) -> LInd {
    let total: i64 = 0;
    EcIndividual::new(tag, TestResults { results: results.into_iter().map(Error).collect(), total_result: Error(total) })
}

/// empty population
pub fn c06_lexicase_empty() {
    let mut rng = SymRng::new(4);
    let empty: Vec<LInd> = Vec::new();
    let cases = any_upto(2);
    match Lexicase::new(cases).select(&empty, &mut rng) {
        Err(LexicaseError::EmptyPopulation(_)) => {}
        _ => check!(false, "lexicase on an empty population reports EmptyPopulation"),
    }
    cover!(cases == 2, "two configured cases reachable");
}
#[cfg(kani)]
#[kani::proof]
#[kani::unwind(5)]
fn p_c06_lexicase_empty() {
    c06_lexicase_empty()
}

/// a missing test-case result (case count larger than the results available): two individuals with NO results,
/// one configured case
pub fn c06_lexicase_missing() {
    let pop = vec![lex_ind(0, vec![]), lex_ind(1, vec![])];
    let mut rng = SymRng::new(4);
    match Lexicase::new(1).select(&pop, &mut rng) {
        Err(LexicaseError::MissingTestCase { total_cases, current_index }) => {
            check!(total_cases == 1 && current_index == 0, "MissingTestCase names the configured case count and the missing index");
            cover!(true, "missing test case reported");
        }
        _ => check!(false, "a missing test-case result is reported as MissingTestCase (not a panic, not a selection)"),
    }
}
#[cfg(kani)]
#[kani::proof]
#[kani::unwind(5)]
fn p_c06_lexicase_missing() {
    c06_lexicase_missing()
}

/// ragged results: the first individual has the case, a later one does not -> MissingTestCase, never a panic
pub fn c06_lexicase_ragged() {
    let pop = vec![lex_ind(0, vec![any_i64()]), lex_ind(1, vec![])];
    let mut rng = SymRng::new(4);
    match Lexicase::new(1).select(&pop, &mut rng) {
        Err(LexicaseError::MissingTestCase { total_cases, current_index }) => {
            check!(total_cases == 1 && current_index == 0, "MissingTestCase names the configured case count and the missing index");
            cover!(true, "missing test case reported");
        }
        _ => check!(false, "a missing test-case result is reported as MissingTestCase (not a panic, not a selection)"),
    }
}
#[cfg(kani)]
#[kani::proof]
#[kani::unwind(5)]
fn p_c06_lexicase_ragged() {
    c06_lexicase_ragged()
}

/// single individual: returned whatever the case count
pub fn c06_lexicase_single() {
    let cases = any_upto(2);
    let one = vec![lex_ind(0, vec![])];
    let mut rng = SymRng::new(4);
    match Lexicase::new(cases).select(&one, &mut rng) {
        Ok(r) => check!(std::ptr::eq(r, &one[0]), "a single individual is selected whatever the case count"),
        Err(_) => check!(false, "a single individual is selected whatever the case count"),
    }
    cover!(cases == 2, "two configured cases reachable");
}
#[cfg(kani)]
#[kani::proof]
#[kani::unwind(5)]
fn p_c06_lexicase_single() {
    c06_lexicase_single()
}

/// one considered case, two individuals (the bound Kani can carry, see DESIGN §6 C08): the survivor set is exactly
/// the individuals with the best (lowest, for errors) result; ties leave both reachable
pub fn c06_lexicase_one_case() {
    let (a, b) = (any_i64(), any_i64());
    let pop = vec![lex_ind(0, vec![a]), lex_ind(1, vec![b])];
    let mut rng = SymRng::new(4);
    match Lexicase::new(1).select(&pop, &mut rng) {
        Ok(r) => {
            let i = member_index(&pop, r);
            check!(i.is_some(), "the selected individual is that very element of the population");
            if a < b {
                check!(i == Some(0), "lexicase keeps only the candidates with the best (lowest) error on the case");
            }
            if b < a {
                check!(i == Some(1), "lexicase keeps only the candidates with the best (lowest) error on the case (second)");
            }
            cover!(a == b && i == Some(0), "tie: first survivor can be chosen");
            cover!(a == b && i == Some(1), "tie: second survivor can be chosen");
        }
        Err(_) => check!(false, "lexicase with all results present selects"),
    }
}
#[cfg(kani)]
#[kani::proof]
#[kani::unwind(5)]
fn p_c06_lexicase_one_case() {
    c06_lexicase_one_case()
}

/// marker selector: returns the individual at a fixed index, or fails on command, drawing one word
pub struct Pick {
    pub idx: usize,
    pub fail: bool,
}
#[derive(Debug, PartialEq, Eq)]
pub struct PickFailed(pub usize);
impl std::fmt::Display for PickFailed {
    fn fmt(&self, f: &mut std::fmt::Formatter<'_>) -> std::fmt::Result {
        f.write_str("pick failed")
    }
}
impl std::error::Error for PickFailed {}
impl Selector<Vec<Ind>> for Pick {
    type Error = PickFailed;
    fn select<'pop, R: rand::Rng + ?Sized>(&self, population: &'pop Vec<Ind>, rng: &mut R) -> Result<&'pop Ind, PickFailed> {
        let _ = rng.next_u32();
        if self.fail || self.idx >= population.len() {
            Err(PickFailed(self.idx))
        } else {
            Ok(&population[self.idx])
        }
    }
}

pub fn c06_weighted() {
    let pop = sym_pop(2);
    let w = any_u32();
    let fail = any_bool();
    let mut rng = SymRng::new(2);
    match Weighted::new(Pick { idx: 1, fail }, w).select(&pop, &mut rng) {
        Ok(r) => {
            check!(w != 0 && !fail, "a zero-weight item is never used; inner failures are reported");
            check!(std::ptr::eq(r, &pop[1]), "Weighted delegates to its member");
        }
        Err(SelectionError::ZeroWeight(_)) => {
            check!(w == 0, "ZeroWeight is reported only for weight 0");
            check!(rng.drawn == 0, "a zero-weight item is never used (no randomness consumed)");
        }
        Err(SelectionError::Selector(e)) => check!(w != 0 && fail && e == PickFailed(1), "the member's own error is passed through"),
    }
    cover!(w == 0, "zero weight reachable");
    cover!(w != 0 && !fail, "successful delegation reachable");
}
#[cfg(kani)]
#[kani::proof]
#[kani::unwind(4)]
fn p_c06_weighted() {
    c06_weighted()
}

pub fn c06_weighted_pair() {
    let pop = sym_pop(2);
    let (wa, wb) = (any_u32(), any_u32());
    let (fa, fb) = (any_bool(), any_bool());
    let pair = WeightedPair::new(Weighted::new(Pick { idx: 0, fail: fa }, wa), Weighted::new(Pick { idx: 1, fail: fb }, wb));
    let Ok(pair) = pair else {
        check!(wa as u64 + wb as u64 > u32::MAX as u64, "WeightSumOverflow only when the sum does not fit in 32 bits");
        return;
    };
    check!(wa as u64 + wb as u64 <= u32::MAX as u64, "a weight total that does not fit in 32 bits is rejected when the pair is built");
    let mut rng = SymRng::new(3);
    match pair.select(&pop, &mut rng) {
        Ok(r) => {
            let i = member_index(&pop, r);
            check!(i.is_some(), "the selected individual is that very element of the population");
            check!(!(i == Some(0) && (wa == 0 || fa)), "a member of weight zero is never used (a)");
            check!(!(i == Some(1) && (wb == 0 || fb)), "a member of weight zero is never used (b)");
            cover!(i == Some(0), "first member can be chosen");
            cover!(i == Some(1), "second member can be chosen");
        }
        Err(SelectionError::ZeroWeight(_)) => check!(wa == 0 && wb == 0, "ZeroWeight is reported only when all weights are zero"),
        Err(SelectionError::Selector(WeightedPairError::A(SelectionError::Selector(e)))) => check!(fa && wa != 0 && e == PickFailed(0), "member a's error identifies member a"),
        Err(SelectionError::Selector(WeightedPairError::B(SelectionError::Selector(e)))) => check!(fb && wb != 0 && e == PickFailed(1), "member b's error identifies member b"),
        Err(SelectionError::Selector(_)) => check!(false, "a zero-weight member is never asked to select"),
    }
    if wa == 0 && wb == 0 {
        cover!(true, "all-zero pair reachable");
    }
}
#[cfg(kani)]
#[kani::proof]
#[kani::unwind(4)]
fn p_c06_weighted_pair() {
    c06_weighted_pair()
}

pub fn c06_dyn_weighted() {
    let pop = sym_pop(3);
    // weights include a value beyond 32 bits (usize weights must not be truncated)
    fn some_w() -> usize {
        match any_u8() % 5 {
            0 => 0,
            1 => 1,
            2 => 3,
            3 => 1usize << 32,
            _ => 2,
        }
    }
    let (w0, w1, w2) = (some_w(), some_w(), some_w());
    let sel = DynWeighted::new(Pick { idx: 0, fail: false }, w0).with_selector(Pick { idx: 1, fail: false }, w1).with_selector(Pick { idx: 2, fail: false }, w2);
    let mut rng = SymRng::new(4);
    match sel.select(&pop, &mut rng) {
        Ok(r) => {
            let i = member_index(&pop, r);
            check!(i.is_some(), "the selected individual is that very element of the population");
            check!(!(i == Some(0) && w0 == 0) && !(i == Some(1) && w1 == 0) && !(i == Some(2) && w2 == 0), "members of weight zero are never used");
            check!(w0 + w1 + w2 > 0, "all-zero weights are reported as ZeroWeightSum");
            cover!(i == Some(0), "first member can be chosen");
            cover!(i == Some(2), "last member can be chosen");
        }
        Err(DynWeightedError::ZeroWeightSum(_)) => check!(w0 + w1 + w2 == 0, "ZeroWeightSum is reported only when all weights are zero"),
        Err(_) => check!(false, "no other error for non-failing members on a non-empty population"),
    }
}
#[cfg(kani)]
#[kani::proof]
#[kani::unwind(6)]
fn p_c06_dyn_weighted() {
    c06_dyn_weighted()
}

/// type-erased and by-reference forms select the same element
pub fn c06_erased_and_ref() {
    let len = any_upto(2);
    let pop = sym_pop(len);
    let mut rng = SymRng::new(1);
    let boxed: Box<dyn DynSelector<Vec<Ind>>> = Box::new(Best);
    let a = boxed.select(&pop, &mut rng);
    let b = (&Best).select(&pop, &mut rng);
    let c = Best.select(&pop, &mut rng);
    match (a, b, c) {
        (Ok(a), Ok(b), Ok(c)) => {
            check!(std::ptr::eq(a, c) && std::ptr::eq(b, c), "erased / by-reference selectors return the very element the concrete selector returns");
            check!(member_index(&pop, a).is_some(), "the selected individual is that very element of the population");
        }
        (Err(_), Err(_), Err(_)) => check!(len == 0, "EmptyPopulation is reported only for an empty population"),
        _ => check!(false, "erased / by-reference selectors agree with the concrete selector"),
    }
    cover!(len == 0, "empty population reachable");
    cover!(len == 2, "population of two reachable");
}
#[cfg(kani)]
#[kani::proof]
#[kani::unwind(5)]
fn p_c06_erased_and_ref() {
    c06_erased_and_ref()
}
