//! C04 — bounded stack is a faithful all-or-nothing LIFO: bounded stand-in for the operations Verus cannot reach
//! (push_many / try_extend: iterator adapters + Vec::extend) and a history check of the whole public API against a
//! reference model (fallback when the Verus extraction loses its anchors).
use crate::sym::*;
use crate::{check, cover};
use collectable::TryExtend;
use push::push_vm::stack::{Stack, StackError};

pub const HARNESSES: &[(&str, fn())] = &[
    ("c04_ops_d0", c04_ops::<0>),
    ("c04_ops_d1", c04_ops::<1>),
    ("c04_ops_d2", c04_ops::<2>),
    ("c04_ops_d3", c04_ops::<3>),
    ("c04_ops_d4", c04_ops::<4>),
    ("c04_bulk", c04_bulk),
];

/// reference model: contents bottom-first, current maximum
struct Model {
    v: [u8; 16],
    n: usize,
    cap: usize,
}
impl Model {
    fn nth(&self, k: usize) -> u8 {
        self.v[self.n - 1 - k]
    }
    fn push(&mut self, x: u8) {
        if self.n < 16 {
            self.v[self.n] = x;
        }
        self.n += 1;
    }
}

fn same(s: &Stack<u8>, m: &Model) -> bool {
    if s.size() != m.n || s.max_stack_size() != m.cap {
        return false;
    }
    stack_matches(s, &m.v[..if m.n <= 16 { m.n } else { 16 }])
}

fn underflow(r: &StackError, req: usize, present: usize) -> bool {
    matches!(r, StackError::Underflow { num_requested, num_present } if *num_requested == req && *num_present == present)
}

fn items(k: usize) -> Vec<u8> {
    let mut v = Vec::new();
    let mut i = 0;
    while i < k {
        v.push(any_u8());
        i += 1;
    }
    v
}

/// stack with exactly N symbolic elements and a symbolic maximum in N-1 ..= N+1 (so also BELOW the current size:
/// "even if that maximum was changed after elements were added")
fn sym_stack<const N: usize>() -> (Stack<u8>, Model) {
    let mut s: Stack<u8> = Stack::default();
    let mut m = Model { v: [0; 16], n: 0, cap: 0 };
    let mut i = 0;
    while i < N {
        let x = any_u8();
        let _ = s.push(x);
        m.push(x);
        i += 1;
    }
    let cap = match any_u8() % 3 {
        0 => N.saturating_sub(1),
        1 => N,
        _ => N + 1,
    };
    s.set_max_stack_size(cap);
    m.cap = cap;
    (s, m)
}

/// one operation (chosen symbolically) on a stack of concrete depth N against the reference model.  Histories reduce
/// to single operations because every operation's outcome and complete post-state is a function of the pre-state.
fn one_op<const N: usize>() {
    let (mut s, mut m) = sym_stack::<N>();
    step(&mut s, &mut m);
}

fn step(s: &mut Stack<u8>, m: &mut Model) {
    let op = any_u8() % 12;
    match op {
        0 => {
            let x = any_u8();
            let r = s.push(x);
            if m.n < m.cap {
                check!(r.is_ok(), "push succeeds while there is room");
                m.push(x);
            } else {
                check!(matches!(r, Err(StackError::Overflow { .. })), "push onto a stack at or above its maximum reports overflow");
            }
        }
        1 => match s.pop() {
            Ok(x) => {
                check!(m.n >= 1 && x == m.nth(0), "pop returns the most recently pushed value");
                m.n -= 1;
            }
            Err(e) => check!(m.n == 0 && underflow(&e, 1, 0), "pop on an empty stack reports Underflow{1,0}"),
        },
        2 => match s.pop2() {
            Ok((x, y)) => {
                check!(m.n >= 2 && x == m.nth(0) && y == m.nth(1), "pop2 returns the two most recent values, top first");
                m.n -= 2;
            }
            Err(e) => check!(m.n < 2 && underflow(&e, 2, m.n), "pop2 reports Underflow with requested and present counts"),
        },
        3 => match s.pop3() {
            Ok((x, y, z)) => {
                check!(m.n >= 3 && x == m.nth(0) && y == m.nth(1) && z == m.nth(2), "pop3 returns the three most recent values, top first");
                m.n -= 3;
            }
            Err(e) => check!(m.n < 3 && underflow(&e, 3, m.n), "pop3 reports Underflow with requested and present counts"),
        },
        4 => match s.top() {
            Ok(x) => check!(m.n >= 1 && *x == m.nth(0), "top reads the most recently pushed value"),
            Err(e) => check!(m.n == 0 && underflow(&e, 1, 0), "top on an empty stack reports Underflow{1,0}"),
        },
        5 => match s.top2() {
            Ok((x, y)) => check!(m.n >= 2 && *x == m.nth(0) && *y == m.nth(1), "top2 reads the two most recent values, top first"),
            Err(e) => check!(m.n < 2 && underflow(&e, 2, m.n), "top2 reports Underflow with requested and present counts"),
        },
        6 => match s.top3() {
            Ok((x, y, z)) => check!(m.n >= 3 && *x == m.nth(0) && *y == m.nth(1) && *z == m.nth(2), "top3 reads the three most recent values, top first"),
            Err(e) => check!(m.n < 3 && underflow(&e, 3, m.n), "top3 reports Underflow with requested and present counts"),
        },
        7 => {
            let k = any_upto(4);
            match s.discard(k) {
                Ok(()) => {
                    check!(k <= m.n, "discard of more than present reports underflow");
                    m.n -= k;
                }
                Err(e) => check!(k > m.n && underflow(&e, k, m.n), "discard reports Underflow with requested and present counts"),
            }
        }
        8 => {
            let c = any_upto(4);
            s.set_max_stack_size(c);
            m.cap = c;
        }
        9 => {
            let k = any_upto(2);
            let it = items(k);
            let copy = it.clone();
            match s.push_many(it) {
                Ok(()) => {
                    check!(k == 0 || m.n + k <= m.cap, "no successful bulk insertion leaves the stack above its current maximum");
                    let mut i = k;
                    while i > 0 {
                        i -= 1;
                        m.push(copy[i]);
                    }
                }
                Err(e) => {
                    check!(matches!(e, StackError::Overflow { .. }), "push_many fails only with overflow");
                    check!(m.n + k > m.cap || k == 0, "push_many succeeds whenever everything fits");
                }
            }
        }
        10 => {
            let k = any_upto(2);
            let it = items(k);
            let copy = it.clone();
            match s.try_extend(&mut it.into_iter()) {
                Ok(()) => {
                    check!(k == 0 || m.n + k <= m.cap, "no successful bulk insertion leaves the stack above its current maximum");
                    let mut i = k;
                    while i > 0 {
                        i -= 1;
                        m.push(copy[i]);
                    }
                }
                Err(e) => {
                    check!(matches!(e, StackError::Overflow { .. }), "try_extend fails only with overflow");
                    check!(m.n + k > m.cap, "try_extend succeeds whenever everything fits");
                }
            }
        }
        _ => {
            check!(s.size() == m.n && s.is_empty() == (m.n == 0), "size queries report the contents");
            if m.n <= m.cap {
                check!(s.is_full() == (m.n == m.cap), "is_full reports a stack at its maximum");
            }
        }
    }
    check!(same(s, m), "after every operation the stack holds exactly what a LIFO sequence would (failed operations leave it untouched)");
}

pub fn c04_ops<const N: usize>() {
    one_op::<N>();
    cover!(true, "operation explored");
}
#[cfg(kani)]
#[kani::proof]
#[kani::unwind(8)]
fn p_c04_ops_d0() {
    c04_ops::<0>()
}
#[cfg(kani)]
#[kani::proof]
#[kani::unwind(8)]
fn p_c04_ops_d1() {
    c04_ops::<1>()
}
#[cfg(kani)]
#[kani::proof]
#[kani::unwind(8)]
fn p_c04_ops_d2() {
    c04_ops::<2>()
}
#[cfg(kani)]
#[kani::proof]
#[kani::unwind(8)]
fn p_c04_ops_d3() {
    c04_ops::<3>()
}
#[cfg(kani)]
#[kani::proof]
#[kani::unwind(8)]
fn p_c04_ops_d4() {
    c04_ops::<4>()
}

/// bulk insertion from a plain (non exact-size) iterator and from an exact-size one: first supplied value becomes the
/// new top; all-or-nothing
fn bulk_at<const N: usize, const K: usize>() {
    let (mut s, mut m) = sym_stack::<N>();
    let it = items(K);
    let copy = it.clone();
    let exact = any_bool();
    let r = if exact { s.push_many(it) } else { s.try_extend(&mut it.into_iter().filter(|_| true)) };
    match &r {
        Ok(()) => {
            check!(K == 0 || N + K <= m.cap, "no successful bulk insertion leaves the stack above its current maximum");
            check!(s.size() == N + K, "bulk insertion inserts every supplied value");
            if K > 0 {
                check!(s.top().ok() == Some(&copy[0]), "bulk insertion makes the first supplied value the new top");
            }
            let mut i = K;
            while i > 0 {
                i -= 1;
                m.push(copy[i]);
            }
        }
        Err(e) => {
            check!(matches!(e, StackError::Overflow { .. }), "bulk insertion fails only with overflow");
            check!(N + K > m.cap || (K == 0 && exact), "bulk insertion succeeds whenever everything fits");
        }
    }
    check!(same(&s, &m), "bulk insertion either inserts everything (first supplied on top) or leaves the contents exactly as they were");
}
/// sizes that do not even add up in a usize: an exact-size iterator of usize::MAX (lazily produced) values onto a
/// non-empty stack with the default (unbounded) maximum is an Overflow error, not a panic, and nothing is consumed
fn bulk_huge() {
    let mut s: Stack<i64> = Stack::default();
    let v = any_i64();
    let _ = s.push(v);
    let r = s.push_many((0..usize::MAX).map(|i| i as i64));
    check!(matches!(r, Err(StackError::Overflow { .. })), "a bulk insertion whose size does not add up in a usize is an overflow");
    check!(s.size() == 1 && s.top().ok() == Some(&v), "bulk insertion either inserts everything (first supplied on top) or leaves the contents exactly as they were");
}
pub fn c04_bulk() {
    bulk_huge();
    bulk_at::<0, 0>();
    bulk_at::<0, 2>();
    bulk_at::<1, 1>();
    bulk_at::<2, 2>();
    bulk_at::<2, 3>();
    cover!(true, "all configurations explored");
}
#[cfg(kani)]
#[kani::proof]
#[kani::unwind(8)]
fn p_c04_bulk() {
    c04_bulk()
}
