//! C05 — genome -> program conversion: bounded fallback for the Verus proof (used when the extraction loses its
//! anchors on a rewritten parser).  Genes over {Close, 0-open, 1-open (When / Unless / DupBlock), 2-open (IfElse)},
//! all sequences up to the stated length; the real `From<Plushy> for Vec<PushProgram>` is compared with an
//! independent recursive-descent reference and with the declarative reading of the property.
use crate::sym::*;
use crate::{check, cover};
use push::genome::plushy::{Plushy, PushGene};
use push::instruction::{ExecInstruction, IntInstruction, NumOpens, PushInstruction};
use push::push_vm::program::PushProgram;

pub const HARNESSES: &[(&str, fn())] = &[
    ("c05_parse_1", c05_parse::<1>),
    ("c05_parse_2", c05_parse::<2>),
    ("c05_parse_3", c05_parse::<3>),
    ("c05_parse_4", c05_parse::<4>),
    ("c05_num_opens", c05_num_opens),
    ("c05_enum_6", c05_enum::<6>),
    ("c05_enum_8", c05_enum::<8>),
];

/// gene codes: 0 Close, 1 Add (opens 0), 2 When (1), 3 IfElse (2), 4 Unless (1), 5 DupBlock (1), 6 Noop (0)
fn gene(code: u8) -> PushGene {
    match code {
        0 => PushGene::Close,
        1 => PushGene::Instruction(IntInstruction::Add.into()),
        2 => PushGene::Instruction(ExecInstruction::when().into()),
        3 => PushGene::Instruction(ExecInstruction::if_else().into()),
        4 => PushGene::Instruction(ExecInstruction::unless().into()),
        5 => PushGene::Instruction(ExecInstruction::dup_block().into()),
        _ => PushGene::Instruction(ExecInstruction::noop().into()),
    }
}
fn opens(code: u8) -> usize {
    match code {
        2 | 4 | 5 => 1,
        3 => 2,
        _ => 0,
    }
}
fn code_of(i: &PushInstruction) -> u8 {
    match i {
        PushInstruction::IntInstruction(IntInstruction::Add) => 1,
        PushInstruction::Exec(ExecInstruction::When(_)) => 2,
        PushInstruction::Exec(ExecInstruction::IfElse(_)) => 3,
        PushInstruction::Exec(ExecInstruction::Unless(_)) => 4,
        PushInstruction::Exec(ExecInstruction::DupBlock(_)) => 5,
        PushInstruction::Exec(ExecInstruction::Noop(_)) => 6,
        _ => 99,
    }
}

/// shape string: instruction codes, 100 = block start, 101 = block end
struct Shape {
    s: [u8; 40],
    n: usize,
}
impl Shape {
    fn push(&mut self, b: u8) {
        if self.n < 40 {
            self.s[self.n] = b;
        }
        self.n += 1;
    }
}

fn shape_of(p: &[PushProgram], out: &mut Shape, depth: usize) {
    let mut i = 0;
    while i < p.len() {
        match &p[i] {
            PushProgram::Instruction(ins) => out.push(code_of(ins)),
            PushProgram::Block(b) => {
                out.push(100);
                if depth < 16 {
                    shape_of(b, out, depth + 1);
                }
                out.push(101);
            }
        }
        i += 1;
    }
}

/// reference recursive descent over the gene codes, written from the property text
fn reference<const N: usize>(g: &[u8; N], len: usize, pos: &mut usize, top: bool, out: &mut Shape, depth: usize) {
    while *pos < len {
        let c = g[*pos];
        *pos += 1;
        if c == 0 {
            // a close marker ends the innermost open block and is ignored when none is open
            if !top {
                return;
            }
        } else {
            out.push(c);
            // each instruction that opens k blocks is immediately followed by exactly k blocks
            let mut k = 0;
            while k < opens(c) {
                out.push(100);
                if depth < 16 {
                    reference::<N>(g, len, pos, false, out, depth + 1);
                }
                // blocks still open when the genome ends are closed there (possibly empty)
                out.push(101);
                k += 1;
            }
        }
    }
}

/// one genome (concrete codes): the real conversion against the reference
fn parse_one<const N: usize>(codes: &[u8; N], len: usize) -> usize {
    let mut genes = Vec::new();
    let mut i = 0;
    while i < len {
        genes.push(gene(codes[i]));
        i += 1;
    }
    let program: Vec<PushProgram> = Plushy::new(genes).into();
    let mut got = Shape { s: [0; 40], n: 0 };
    shape_of(&program, &mut got, 0);
    let mut want = Shape { s: [0; 40], n: 0 };
    let mut pos = 0;
    reference::<N>(codes, len, &mut pos, true, &mut want, 0);
    check!(got.n == want.n, "the program has exactly the instructions and blocks the genome prescribes");
    let mut same = true;
    let mut k = 0;
    while k < 40 {
        if k < got.n && k < want.n && got.s[k] != want.s[k] {
            same = false;
        }
        k += 1;
    }
    check!(same, "depth-first reading yields the genome's instructions in order, each k-opener immediately followed by exactly k blocks; Close ends the innermost block / is ignored at top level; open blocks are closed at the end");
    std::mem::forget(program);
    got.n
}

/// ALL genomes of length exactly N over {Close, Add (0 opens), When (1), IfElse (2)}, enumerated (4^N of them): the
/// parser's control flow depends only on the gene kinds, so the enumeration is exhaustive for this alphabet and length
pub fn c05_parse<const N: usize>() {
    let mut codes = [0u8; N];
    let mut total = 1usize;
    let mut i = 0;
    while i < N {
        total *= 4;
        i += 1;
    }
    let mut idx = 0;
    let mut max_shape = 0;
    while idx < total {
        let mut x = idx;
        let mut j = 0;
        while j < N {
            codes[j] = (x % 4) as u8;
            x /= 4;
            j += 1;
        }
        let n = parse_one::<N>(&codes, N);
        if n > max_shape {
            max_shape = n;
        }
        idx += 1;
    }
    cover!(max_shape >= N, "genomes with blocks explored");
}
#[cfg(kani)]
#[kani::proof]
#[kani::unwind(70)]
fn p_c05_parse_1() {
    c05_parse::<1>()
}
#[cfg(kani)]
#[kani::proof]
#[kani::unwind(70)]
fn p_c05_parse_2() {
    c05_parse::<2>()
}
#[cfg(kani)]
#[kani::proof]
#[kani::unwind(70)]
fn p_c05_parse_3() {
    c05_parse::<3>()
}
#[cfg(kani)]
#[kani::proof]
#[kani::unwind(260)]
fn p_c05_parse_4() {
    c05_parse::<4>()
}

/// only DupBlock / When / Unless open one block, IfElse two, everything else none
pub fn c05_num_opens() {
    let c = any_u8();
    assume(c >= 1 && c <= 6);
    if let PushGene::Instruction(i) = gene(c) {
        check!(i.num_opens() == opens(c), "NumOpens: DupBlock / When / Unless open 1 block, IfElse 2, all others 0");
        std::mem::forget(i);
    }
    cover!(c == 3, "IfElse reachable");
}
#[cfg(kani)]
#[kani::proof]
#[kani::unwind(4)]
fn p_c05_num_opens() {
    c05_num_opens()
}

/// NATIVE exhaustive enumeration (executed by kh-replay on the ordinary toolchain, not by a verifier; CBMC cannot carry
/// `PushProgram`): every genome of length 0..=N over all seven gene kinds {Close, Add, When, IfElse, Unless, DupBlock,
/// Noop}, the real conversion against the reference recursive descent
pub fn c05_enum<const N: usize>() {
    let mut codes = [0u8; N];
    let mut len = 0;
    let mut explored = 0usize;
    let mut max_shape = 0;
    while len <= N {
        let mut total = 1usize;
        let mut i = 0;
        while i < len {
            total *= 7;
            i += 1;
        }
        let mut idx = 0;
        while idx < total {
            let mut x = idx;
            let mut j = 0;
            while j < len {
                codes[j] = (x % 7) as u8;
                x /= 7;
                j += 1;
            }
            context(|| format!("genome (0 Close, 1 Add, 2 When, 3 IfElse, 4 Unless, 5 DupBlock, 6 Noop) = {:?}", &codes[..len]));
            let n = parse_one::<N>(&codes, len);
            if n > max_shape {
                max_shape = n;
            }
            explored += 1;
            idx += 1;
        }
        len += 1;
    }
    context(String::new);
    cover!(max_shape >= N && explored > 1, "genomes with blocks explored");
}
