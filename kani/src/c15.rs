//! C15 (aggregation part) — totals equal the sum of the per-case results kept in order; scored individuals carry
//! exactly the genome they were created from and the scorer's result for that genome.
use crate::sym::*;
use crate::{check, cover};
use ec_core::individual::ec::{EcIndividual, IndividualGenerator, WithScorer};
use ec_core::individual::scorer::{FnScorer, Scorer};
use ec_core::individual::Individual;
use ec_core::operator::composable::Composable;
use ec_core::operator::genome_scorer::GenomeScorer;
use ec_core::operator::Operator;
use ec_core::test_results::{Error, Score, TestResult, TestResults};
use rand::distr::Distribution;
use rand::RngCore;
use std::cmp::Ordering;

pub const HARNESSES: &[(&str, fn())] = &[
    ("c15_test_results_from", c15_test_results_from::<3>),
    ("c15_test_results_from_n5", c15_test_results_from::<5>),
    ("c15_test_results_from_0", c15_test_results_from::<0>),
    ("c15_test_results_from_1", c15_test_results_from::<1>),
    ("c15_scored_individuals", c15_scored_individuals),
    ("c15_orderings", c15_orderings),
];

pub fn c15_test_results_from<const N: usize>() {
    let len = N;
    let mut vals: Vec<i64> = Vec::new();
    let mut sum: i128 = 0;
    let mut i = 0;
    while i < len {
        let v = any_i64();
        // the property speaks about sums that exist
        assume(v > -(1 << 40) && v < (1 << 40));
        vals.push(v);
        sum += v as i128;
        i += 1;
    }
    let e: TestResults<Error<i64>> = vals.clone().into();
    let s: TestResults<Score<i64>> = vals.iter().copied().collect();
    check!(e.results.len() == len && s.results.len() == len && e.len() == len, "one result per case");
    check!(e.is_empty() == (len == 0), "is_empty reports the absence of results");
    let mut i = 0;
    while i < N {
        if i < len && i < e.results.len() && i < s.results.len() {
            check!(e.results[i] == Error(vals[i]) && s.results[i] == Score(vals[i]), "per-case results are kept in the order given");
        }
        i += 1;
    }
    check!(e.total_result.0 as i128 == sum, "the total error equals the sum of the per-case errors");
    check!(s.total_result.0 as i128 == sum, "the total score equals the sum of the per-case scores");
    cover!(e.results.len() == N, "result vector of the requested length reachable");
}
#[cfg(kani)]
#[kani::proof]
#[kani::unwind(6)]
fn p_c15_test_results_from() {
    c15_test_results_from::<3>()
}
#[cfg(kani)]
#[kani::proof]
#[kani::unwind(8)]
fn p_c15_test_results_from_n5() {
    c15_test_results_from::<5>()
}
#[cfg(kani)]
#[kani::proof]
#[kani::unwind(4)]
fn p_c15_test_results_from_0() {
    c15_test_results_from::<0>()
}
#[cfg(kani)]
#[kani::proof]
#[kani::unwind(4)]
fn p_c15_test_results_from_1() {
    c15_test_results_from::<1>()
}

struct GenomeGen;
impl Distribution<u32> for GenomeGen {
    fn sample<R: rand::Rng + ?Sized>(&self, rng: &mut R) -> u32 {
        rng.next_u32()
    }
}
struct Maker {
    fail: bool,
}
impl Composable for Maker {}
impl<'p> Operator<&'p Vec<u8>> for Maker {
    type Output = u32;
    type Error = u8;
    fn apply<R: rand::Rng + ?Sized>(&self, p: &'p Vec<u8>, rng: &mut R) -> Result<u32, u8> {
        let w = rng.next_u32();
        if self.fail { Err(7) } else { Ok(w ^ p.len() as u32) }
    }
}

/// complete: loop-free, all genomes / words
pub fn c15_scored_individuals() {
    let k = any_i64();
    let scorer = FnScorer(move |g: &u32| (*g as i64).wrapping_mul(3).wrapping_add(k));
    let tape = TapeRng::<2>::symbolic();
    let mut rng = tape.restart();
    let ind: EcIndividual<u32, i64> = GenomeGen.with_scorer(scorer).sample(&mut rng);
    let g = (tape.tape[0] >> 32) as u32;
    check!(ind.genome == g && *ind.genome() == g, "a generated individual carries exactly the genome that was generated");
    check!(ind.test_results == (g as i64).wrapping_mul(3).wrapping_add(k), "a generated individual carries the scorer's result for that genome");
    check!(rng.pos == 1, "scoring consumes no randomness");
    let fail = any_bool();
    let pop = vec![1u8, 2u8];
    let mut rng = tape.restart();
    let r = GenomeScorer::new(Maker { fail }, scorer).apply(&pop, &mut rng);
    match r {
        Ok(ind) => {
            check!(!fail, "a failing genome maker fails the scorer operator");
            check!(ind.genome == g ^ 2, "GenomeScorer carries exactly the genome the genome maker produced");
            check!(ind.test_results == ((g ^ 2) as i64).wrapping_mul(3).wrapping_add(k), "GenomeScorer carries the scorer's result for that genome");
        }
        Err(e) => check!(fail && e == 7, "the genome maker's error is passed through"),
    }
    let ind2 = EcIndividual::from((g, k));
    check!(ind2.genome == g && ind2.test_results == k && *ind2.test_results() == k, "EcIndividual::from keeps genome and results");
    cover!(fail, "failing genome maker reachable");
    cover!(!fail, "succeeding genome maker reachable");
}
#[cfg(kani)]
#[kani::proof]
#[kani::unwind(4)]
fn p_c15_scored_individuals() {
    c15_scored_individuals()
}

fn rev(o: Ordering) -> Ordering {
    match o {
        Ordering::Less => Ordering::Greater,
        Ordering::Equal => Ordering::Equal,
        Ordering::Greater => Ordering::Less,
    }
}

/// complete: loop-free, all i64 (the compiled orderings, derived ones included)
pub fn c15_orderings() {
    let (a, b) = (any_i64(), any_i64());
    let natural = a.cmp(&b);
    check!(Score(a).cmp(&Score(b)) == natural, "scores order ascending (bigger is better)");
    check!(Error(a).cmp(&Error(b)) == rev(natural), "errors order descending (smaller is better)");
    check!(Score(a).partial_cmp(&Score(b)) == Some(natural), "Score: partial_cmp agrees with cmp");
    check!(Error(a).partial_cmp(&Error(b)) == Some(rev(natural)), "Error: partial_cmp agrees with cmp");
    check!((Score(a) < Score(b)) == (a < b) && (Score(a) <= Score(b)) == (a <= b) && (Score(a) > Score(b)) == (a > b) && (Score(a) >= Score(b)) == (a >= b), "Score: comparison operators agree");
    check!((Error(a) < Error(b)) == (a > b) && (Error(a) <= Error(b)) == (a >= b) && (Error(a) > Error(b)) == (a < b) && (Error(a) >= Error(b)) == (a <= b), "Error: comparison operators agree");
    check!((Score(a) == Score(b)) == (a == b) && (Error(a) == Error(b)) == (a == b), "equality is equality of the values");
    let (s1, s2): (TestResult<i64, i64>, TestResult<i64, i64>) = (TestResult::Score(Score(a)), TestResult::Score(Score(b)));
    let (e1, e2): (TestResult<i64, i64>, TestResult<i64, i64>) = (TestResult::Error(Error(a)), TestResult::Error(Error(b)));
    check!(s1.partial_cmp(&s2) == Some(natural) && e1.partial_cmp(&e2) == Some(rev(natural)), "TestResult compares like its payload within one kind");
    check!(s1.partial_cmp(&e2).is_none() && e1.partial_cmp(&s2).is_none() && s1 != e2, "a score is never comparable to an error");
    check!(!(s1 < e2) && !(s1 > e2) && !(s1 <= e2) && !(s1 >= e2), "a score is never comparable to an error (operators)");
    // collections and individuals compare exactly as their totals do
    let (x, y) = (any_i64(), any_i64());
    // one side with NO per-case results: comparison must still be that of the totals
    let ta = TestResults { results: Vec::new(), total_result: Error(a) };
    let tb = TestResults { results: vec![Error(y), Error(x)], total_result: Error(b) };
    check!(ta.cmp(&tb) == rev(natural) && ta.partial_cmp(&tb) == Some(rev(natural)), "TestResults compare exactly as their totals do");
    let ia = EcIndividual::new(x, ta);
    let ib = EcIndividual::new(y, tb);
    check!(ia.cmp(&ib) == rev(natural) && ia.partial_cmp(&ib) == Some(rev(natural)), "individuals compare exactly as their test results do");
    check!((ia < ib) == (a > b) && (ia > ib) == (a < b), "individuals: operators agree");
    cover!(natural == Ordering::Less, "less reachable");
    cover!(natural == Ordering::Equal, "equal reachable");
}
#[cfg(kani)]
#[kani::proof]
#[kani::unwind(4)]
fn p_c15_orderings() {
    c15_orderings()
}
