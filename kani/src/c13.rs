//! C13 — weighted selector combinations choose members in proportion to their weights.
use crate::c06::{member_index, sym_pop, Ind, Pick, PickFailed};
use crate::c11::ConstRng;
use crate::sym::*;
use crate::{check, cover};
use ec_core::operator::selector::Selector;
use ec_core::weighted::error::{SelectionError, WeightSumOverflow, WeightedPairError};
use ec_core::weighted::weighted_pair::WeightedPair;
use ec_core::weighted::with_weight::WithWeight;
use ec_core::weighted::with_weighted_item::WithWeightedItem;
use ec_core::weighted::Weighted;
use rand::distr::{Bernoulli, Distribution};

pub const HARNESSES: &[(&str, fn())] = &[
    ("c13_pair_build", c13_pair_build),
    ("c13_pair_threshold", c13_pair_threshold),
    ("c13_nested_left", c13_nested_left),
    ("c13_nested_right", c13_nested_right),
    ("c13_chain_overflow", c13_chain_overflow),
];

/// representative weights (a fully symbolic u32 would make CBMC bit-blast rand's f64 division)
fn some_weight() -> u32 {
    match any_u8() % 8 {
        0 => 0,
        1 => 1,
        2 => 2,
        3 => 3,
        4 => 1000,
        5 => 1 << 31,
        6 => u32::MAX - 1,
        _ => u32::MAX,
    }
}

/// build-time part, complete: all u32 weights, no loops
pub fn c13_pair_build() {
    let (wa, wb) = (any_u32(), any_u32());
    let r = WeightedPair::new(Weighted::new((), wa), Weighted::new((), wb));
    let fits = wa as u64 + wb as u64 <= u32::MAX as u64;
    match r {
        Ok(p) => {
            check!(fits, "a weight total that does not fit in 32 bits is rejected when the chain is built");
            check!(p.weight() as u64 == wa as u64 + wb as u64, "a pair exposes the sum of its members' weights");
        }
        Err(WeightSumOverflow(x, y)) => {
            check!(!fits, "WeightSumOverflow only when the total does not fit in 32 bits");
            check!(x == wa && y == wb, "WeightSumOverflow reports the two weights");
        }
    }
    cover!(fits, "fitting pair reachable");
    cover!(!fits, "overflowing pair reachable");
}
#[cfg(kani)]
#[kani::proof]
fn p_c13_pair_build() {
    c13_pair_build()
}

/// which member a pair delegates to, as a function of the random word: member a  <=>  Bernoulli(wa/(wa+wb)) accepts w.
/// The set of accepted words has measure wa/(wa+wb) (up to f64 rounding, checked against exact integer arithmetic).
pub fn c13_pair_threshold() {
    let (wa, wb) = (some_weight(), some_weight());
    assume(wa as u64 + wb as u64 <= u32::MAX as u64);
    let pop = sym_pop(2);
    let pair = WeightedPair::new(Weighted::new(Pick { idx: 0, fail: false }, wa), Weighted::new(Pick { idx: 1, fail: false }, wb)).unwrap();
    let w = any_u64();
    let mut rng = ConstRng(w, 0);
    let r = pair.select(&pop, &mut rng);
    if wa == 0 && wb == 0 {
        check!(matches!(r, Err(SelectionError::ZeroWeight(_))), "all-zero weights report ZeroWeight instead of selecting");
        return;
    }
    let Ok(r) = r else {
        check!(false, "a pair with positive total weight and non-failing members selects");
        return;
    };
    let chose_a = std::ptr::eq(r, &pop[0]);
    check!(chose_a || std::ptr::eq(r, &pop[1]), "a pair delegates to exactly one of its members");
    // exact rational threshold floor(wa * 2^64 / (wa+wb)), tolerance for rand's f64 rounding: 2^12
    let total = wa as u128 + wb as u128;
    let exact = ((wa as u128) << 64) / total;
    let w128 = w as u128;
    if wa == 0 {
        check!(!chose_a, "a member of weight zero is never used (a)");
    }
    if wb == 0 {
        check!(chose_a, "a member of weight zero is never used (b)");
    }
    if w128 + 4096 < exact {
        check!(chose_a, "member a is chosen on (at least) the words below wa/(wa+wb) * 2^64");
    }
    if w128 >= exact + 4096 {
        check!(!chose_a, "member b is chosen on (at least) the words above wa/(wa+wb) * 2^64");
    }
    cover!(chose_a && wb > 0, "member a chosen while b has weight");
    cover!(!chose_a && wa > 0, "member b chosen while a has weight");
}
#[cfg(kani)]
#[kani::proof]
#[kani::unwind(4)]
fn p_c13_pair_threshold() {
    c13_pair_threshold()
}

fn bern(num: u32, den: u32, w: u64) -> bool {
    Bernoulli::from_ratio(num, den).unwrap().sample(&mut ConstRng(w, 0))
}

/// ((A, B), C): the outer coin uses (wa+wb)/(wa+wb+wc), the inner wa/(wa+wb): member i is used on a set of word
/// pairs of measure w_i / sum
pub fn c13_nested_left() {
    let (wa, wb, wc) = (some_weight(), some_weight(), some_weight());
    assume(wa as u64 + wb as u64 + wc as u64 <= u32::MAX as u64);
    assume(wa as u64 + wb as u64 + wc as u64 > 0);
    let pop = sym_pop(3);
    let chain = Weighted::new(Pick { idx: 0, fail: false }, wa)
        .with_item_and_weight(Pick { idx: 1, fail: false }, wb)
        .with_item_and_weight(Pick { idx: 2, fail: false }, wc)
        .unwrap();
    check!(chain.weight() == wa + wb + wc, "a nested pair exposes the total weight");
    let tape = TapeRng::<3>::symbolic();
    let mut rng = tape.restart();
    let Ok(r) = chain.select(&pop, &mut rng) else {
        check!(false, "a chain with positive total weight and non-failing members selects");
        return;
    };
    let i = member_index(&pop, r);
    let expect = if wa + wb > 0 && bern(wa + wb, wa + wb + wc, tape.tape[0]) {
        // Bernoulli(1) consumes no word: the inner coin then sees the first word
        let inner_word = if wc == 0 { tape.tape[0] } else { tape.tape[1] };
        if bern(wa, wa + wb, inner_word) { 0 } else { 1 }
    } else {
        2
    };
    check!(i == Some(expect), "left-nested chain: outer coin (wa+wb)/(total) then inner coin wa/(wa+wb) decide the member");
    check!(!(i == Some(0) && wa == 0) && !(i == Some(1) && wb == 0) && !(i == Some(2) && wc == 0), "members of weight zero are never used");
    cover!(i == Some(0), "first member can be chosen");
    cover!(i == Some(1), "second member can be chosen");
    cover!(i == Some(2), "third member can be chosen");
}
#[cfg(kani)]
#[kani::proof]
#[kani::unwind(5)]
fn p_c13_nested_left() {
    c13_nested_left()
}

/// (A, (B, C)) built by hand: same law, so nesting order does not matter
pub fn c13_nested_right() {
    let (wa, wb, wc) = (some_weight(), some_weight(), some_weight());
    assume(wa as u64 + wb as u64 + wc as u64 <= u32::MAX as u64);
    assume(wa as u64 + wb as u64 + wc as u64 > 0);
    let pop = sym_pop(3);
    let inner = WeightedPair::new(Weighted::new(Pick { idx: 1, fail: false }, wb), Weighted::new(Pick { idx: 2, fail: false }, wc)).unwrap();
    let chain = WeightedPair::new(Weighted::new(Pick { idx: 0, fail: false }, wa), inner).unwrap();
    check!(chain.weight() == wa + wb + wc, "a nested pair exposes the total weight");
    let tape = TapeRng::<3>::symbolic();
    let mut rng = tape.restart();
    let Ok(r) = chain.select(&pop, &mut rng) else {
        check!(false, "a chain with positive total weight and non-failing members selects");
        return;
    };
    let i = member_index(&pop, r);
    let expect = if bern(wa, wa + wb + wc, tape.tape[0]) {
        0
    } else {
        let inner_word = if wb + wc == 0 || wa == wa + wb + wc { tape.tape[0] } else { tape.tape[1] };
        if wb + wc > 0 && bern(wb, wb + wc, inner_word) { 1 } else { 2 }
    };
    check!(i == Some(expect), "right-nested chain: outer coin wa/(total) then inner coin wb/(wb+wc) decide the member");
    check!(!(i == Some(0) && wa == 0) && !(i == Some(1) && wb == 0) && !(i == Some(2) && wc == 0), "members of weight zero are never used");
    cover!(i == Some(0), "first member can be chosen");
    cover!(i == Some(1), "second member can be chosen");
    cover!(i == Some(2), "third member can be chosen");
}
#[cfg(kani)]
#[kani::proof]
#[kani::unwind(5)]
fn p_c13_nested_right() {
    c13_nested_right()
}

/// overflow anywhere in a chain is reported when the chain is built, also when it happened earlier; complete (all u32)
pub fn c13_chain_overflow() {
    let (wa, wb, wc) = (any_u32(), any_u32(), any_u32());
    let r = Weighted::new((), wa).with_item_and_weight((), wb).with_item_and_weight((), wc);
    let s1 = wa as u64 + wb as u64;
    match r {
        Ok(chain) => {
            check!(s1 + wc as u64 <= u32::MAX as u64, "a chain whose total does not fit in 32 bits is rejected");
            check!(chain.weight() as u64 == s1 + wc as u64, "a chain exposes the total weight");
        }
        Err(WeightSumOverflow(x, y)) => {
            if s1 > u32::MAX as u64 {
                check!(x == wa && y == wb, "an overflow that happened earlier in the chain is the one reported");
            } else {
                check!(s1 + wc as u64 > u32::MAX as u64, "WeightSumOverflow only when the total does not fit");
                check!(x as u64 == s1 && y == wc, "WeightSumOverflow reports the accumulated and the new weight");
            }
        }
    }
    cover!(s1 > u32::MAX as u64, "early overflow reachable");
    cover!(s1 <= u32::MAX as u64 && s1 + wc as u64 > u32::MAX as u64, "late overflow reachable");
}
#[cfg(kani)]
#[kani::proof]
fn p_c13_chain_overflow() {
    c13_chain_overflow()
}
