// Demonstrations of the genuine defects found by the checks (run as an integration test of the `push` crate:
//   cp this file to <worktree>/packages/push/tests/vx_defects_demo.rs && cargo test -p push --test vx_defects_demo)
// Each test FAILS on the original tree (commit 206f716) and PASSES after the corresponding `fix:` commit.
use ordered_float::OrderedFloat;
use push::{
    instruction::{FloatInstruction, Instruction, IntInstruction},
    push_vm::{push_state::PushState, stack::Stack, HasStack},
};

fn state() -> PushState {
    PushState::builder()
        .with_max_stack_size(10)
        .with_no_program()
        .with_instruction_step_limit(10)
        .build()
}

#[test]
fn f1_int_comparison_consumes_both_operands() {
    let mut s = state();
    s.stack_mut::<i64>().push(3).unwrap();
    s.stack_mut::<i64>().push(5).unwrap();
    let s = IntInstruction::LessThan.perform(s).unwrap();
    assert_eq!(s.stack::<i64>().size(), 0, "both compared ints must be consumed");
    assert_eq!(s.stack::<bool>().size(), 1);
}

#[test]
fn f2_float_comparison_consumes_both_operands() {
    let mut s = state();
    s.stack_mut::<OrderedFloat<f64>>().push(OrderedFloat(3.0)).unwrap();
    s.stack_mut::<OrderedFloat<f64>>().push(OrderedFloat(5.0)).unwrap();
    let s = FloatInstruction::LessThan.perform(s).unwrap();
    assert_eq!(s.stack::<OrderedFloat<f64>>().size(), 0, "both compared floats must be consumed");
    assert_eq!(s.stack::<bool>().size(), 1);
}

#[test]
fn f3_is_odd_of_negative_odd_number() {
    let mut s = state();
    s.stack_mut::<i64>().push(-3).unwrap();
    let s = IntInstruction::IsOdd.perform(s).unwrap();
    assert_eq!(s.stack::<bool>().top().unwrap(), &true, "-3 is odd");
}

#[test]
fn f4_push_respects_lowered_maximum() {
    let mut st: Stack<i64> = Stack::default();
    st.push(1).unwrap();
    st.push(2).unwrap();
    st.push(3).unwrap();
    st.set_max_stack_size(1);
    assert!(st.push(4).is_err(), "push onto a stack above its maximum must overflow");
    assert_eq!(st.size(), 3);
}
