//! vx — mechanical extractor: fills the holes of the contract templates in
//! /verif/specs with the *real* text of items and function bodies taken from
//! the repository's current working tree, applying only the closed list of
//! semantics-preserving rewrites documented in DESIGN.md (T1..T10), and
//! records exactly what it did in an extraction record.
//!
//! Exit codes: 0 ok; 2 = cannot extract (lost anchor, signature drift,
//! unsupported construct) — this is "undecided", never a violation.

use proc_macro2::{Delimiter, Span, TokenStream, TokenTree};
use serde_json::{json, Value};
use std::collections::BTreeMap;
use std::fmt::Write as _;
use std::path::{Path, PathBuf};
use std::str::FromStr;
use syn::spanned::Spanned;
use syn::visit::Visit;

#[derive(Debug)]
struct Bail(String);
type R<T> = Result<T, Bail>;
fn bail<T>(s: impl Into<String>) -> R<T> {
    Err(Bail(s.into()))
}

fn fnv(s: &str) -> String {
    let mut h: u64 = 0xcbf29ce484222325;
    for b in s.as_bytes() {
        h ^= u64::from(*b);
        h = h.wrapping_mul(0x100000001b3);
    }
    format!("{h:016x}")
}

/// Normalised token string (whitespace-insensitive comparison key).
fn norm_tokens(ts: TokenStream) -> String {
    let mut out = String::new();
    fn go(ts: TokenStream, out: &mut String) {
        for tt in ts {
            match tt {
                TokenTree::Group(g) => {
                    let (o, c) = match g.delimiter() {
                        Delimiter::Parenthesis => ("(", ")"),
                        Delimiter::Brace => ("{", "}"),
                        Delimiter::Bracket => ("[", "]"),
                        Delimiter::None => ("", ""),
                    };
                    out.push_str(o);
                    out.push(' ');
                    go(g.stream(), out);
                    out.push_str(c);
                    out.push(' ');
                }
                TokenTree::Punct(p) => {
                    out.push(p.as_char());
                    out.push(' ');
                }
                other => {
                    out.push_str(&other.to_string());
                    out.push(' ');
                }
            }
        }
    }
    go(ts, &mut out);
    out.trim().to_string()
}
fn norm_str(s: &str) -> R<String> {
    match TokenStream::from_str(s) {
        Ok(t) => Ok(norm_tokens(t)),
        Err(e) => bail(format!("cannot tokenise `{s}`: {e}")),
    }
}

struct SrcFile {
    text: String,
    ast: syn::File,
}

struct Ctx {
    repo: PathBuf,
    expanded: PathBuf,
    files: BTreeMap<String, SrcFile>,
    record: Vec<Value>,
    splits: String,
}

impl Ctx {
    fn load(&mut self, rel: &str) -> R<&SrcFile> {
        if !self.files.contains_key(rel) {
            let p = if let Some(x) = rel.strip_prefix("@expanded/") {
                self.expanded.join(x)
            } else if Path::new(rel).is_absolute() {
                PathBuf::from(rel)
            } else {
                self.repo.join(rel)
            };
            let text = std::fs::read_to_string(&p)
                .map_err(|e| Bail(format!("lost anchor: cannot read {}: {e}", p.display())))?;
            let ast = syn::parse_file(&text)
                .map_err(|e| Bail(format!("cannot parse {}: {e}", p.display())))?;
            self.files.insert(rel.to_string(), SrcFile { text, ast });
        }
        Ok(&self.files[rel])
    }
}

#[derive(Clone, Debug)]
struct Edit {
    start: usize,
    end: usize,
    text: String,
}

fn range(sp: Span) -> (usize, usize) {
    let r = sp.byte_range();
    (r.start, r.end)
}

fn apply_edits(text: &str, lo: usize, hi: usize, mut edits: Vec<Edit>) -> R<String> {
    edits.retain(|e| e.start >= lo && e.end <= hi);
    edits.sort_by_key(|e| (e.start, e.end));
    // nested deletions (e.g. a removed attribute containing tokens we also touch): drop inner ones
    let mut kept: Vec<Edit> = Vec::new();
    for e in edits {
        if let Some(last) = kept.last() {
            if e.start < last.end {
                if e.end <= last.end && last.text.is_empty() {
                    continue; // inside a deleted region
                }
                return bail(format!(
                    "internal: overlapping edits at {}..{} and {}..{}",
                    last.start, last.end, e.start, e.end
                ));
            }
        }
        kept.push(e);
    }
    let mut out = String::new();
    let mut pos = lo;
    for e in kept {
        out.push_str(&text[pos..e.start]);
        out.push_str(&e.text);
        pos = e.end;
    }
    out.push_str(&text[pos..hi]);
    Ok(out)
}

// --------------------------------------------------------------------------
// token-level scans (cover macro arguments too)

fn scan_idents(ts: TokenStream, f: &mut dyn FnMut(&proc_macro2::Ident)) {
    for tt in ts {
        match tt {
            TokenTree::Group(g) => scan_idents(g.stream(), f),
            TokenTree::Ident(i) => f(&i),
            _ => {}
        }
    }
}

// --------------------------------------------------------------------------
// AST collection inside a function body

#[derive(Default)]
struct Collector<'a> {
    closures: Vec<&'a syn::ExprClosure>,
    loops: Vec<(Span, Span, Option<Span>)>, // (whole loop span, body block span, wildcard pattern span)
    for_exprs: BTreeMap<usize, Span>, // start offset of a `for` loop -> span of the iterated expression
    attrs: Vec<Span>,
    macros: Vec<&'a syn::Macro>,
}
impl<'a> Visit<'a> for Collector<'a> {
    fn visit_expr_closure(&mut self, c: &'a syn::ExprClosure) {
        self.closures.push(c);
        syn::visit::visit_expr_closure(self, c);
    }
    fn visit_expr_for_loop(&mut self, l: &'a syn::ExprForLoop) {
        let wild = if let syn::Pat::Wild(w) = &*l.pat { Some(w.span()) } else { None };
        self.loops.push((l.span(), l.body.span(), wild));
        self.for_exprs.insert(range(l.span()).0, l.expr.span());
        syn::visit::visit_expr_for_loop(self, l);
    }
    fn visit_expr_while(&mut self, l: &'a syn::ExprWhile) {
        self.loops.push((l.span(), l.body.span(), None));
        syn::visit::visit_expr_while(self, l);
    }
    fn visit_expr_loop(&mut self, l: &'a syn::ExprLoop) {
        self.loops.push((l.span(), l.body.span(), None));
        syn::visit::visit_expr_loop(self, l);
    }
    fn visit_attribute(&mut self, a: &'a syn::Attribute) {
        self.attrs.push(a.span());
    }
    fn visit_macro(&mut self, m: &'a syn::Macro) {
        self.macros.push(m);
    }
}

/// T2: compile an irrefutable closure-parameter pattern into projections of `base`.
/// `by_ref`: the pattern is matched against a reference (default binding mode `ref`): identifiers bind references.
fn compile_pat(p: &syn::Pat, base: &str, by_ref: bool, out: &mut Vec<String>) -> R<()> {
    match p {
        syn::Pat::Ident(pi) => {
            if pi.by_ref.is_some() || pi.subpat.is_some() {
                return bail("unsupported closure pattern (ref / @ binding)");
            }
            let m = if pi.mutability.is_some() { "mut " } else { "" };
            let amp = if by_ref { "&" } else { "" };
            out.push(format!("let {m}{} = {amp}{base};", pi.ident));
            Ok(())
        }
        syn::Pat::Wild(_) => Ok(()),
        syn::Pat::Paren(pp) => compile_pat(&pp.pat, base, by_ref, out),
        syn::Pat::Type(pt) => compile_pat(&pt.pat, base, by_ref, out),
        syn::Pat::Reference(pr) => {
            if by_ref {
                return bail("unsupported closure pattern (`&` pattern under a default `ref` binding mode)");
            }
            compile_pat(&pr.pat, &format!("(*{base})"), false, out)
        }
        syn::Pat::Tuple(pt) => {
            for (i, e) in pt.elems.iter().enumerate() {
                compile_pat(e, &format!("{base}.{i}"), by_ref, out)?;
            }
            Ok(())
        }
        syn::Pat::TupleStruct(ts) => {
            for (i, e) in ts.elems.iter().enumerate() {
                compile_pat(e, &format!("{base}.{i}"), by_ref, out)?;
            }
            Ok(())
        }
        _ => bail("unsupported closure parameter pattern (outside T2 grammar)"),
    }
}

/// names of the parameters in a directive closure head `|a: T, b: U| -> ...`
fn head_param_names(head: &str) -> R<Vec<(String, bool)>> {
    let ts = TokenStream::from_str(head).map_err(|e| Bail(format!("closure head `{head}`: {e}")))?;
    let toks: Vec<TokenTree> = ts.into_iter().collect();
    let mut names = Vec::new();
    let mut i = 0;
    // optional `move`
    if let Some(TokenTree::Ident(id)) = toks.first() {
        if id == "move" {
            i = 1;
        }
    }
    match toks.get(i) {
        Some(TokenTree::Punct(p)) if p.as_char() == '|' => {}
        _ => return bail(format!("closure head must start with `|`: {head}")),
    }
    if let (Some(TokenTree::Punct(p)), Some(TokenTree::Punct(q))) = (toks.get(i), toks.get(i + 1)) {
        if p.as_char() == '|' && q.as_char() == '|' && p.spacing() == proc_macro2::Spacing::Joint {
            return Ok(names);
        }
    }
    i += 1;
    let mut expect_name = true;
    let mut depth_angle = 0i32;
    while i < toks.len() {
        match &toks[i] {
            TokenTree::Punct(p) if p.as_char() == '|' && depth_angle == 0 => break,
            TokenTree::Punct(p) if p.as_char() == '<' => depth_angle += 1,
            TokenTree::Punct(p) if p.as_char() == '>' => depth_angle -= 1,
            TokenTree::Punct(p) if p.as_char() == ',' && depth_angle == 0 => expect_name = true,
            TokenTree::Ident(id) if expect_name => {
                if id != "mut" {
                    // does the declared type start with `&`?  tokens: name ':' '&' ...
                    let is_ref = matches!((toks.get(i + 1), toks.get(i + 2)),
                        (Some(TokenTree::Punct(c)), Some(TokenTree::Punct(a))) if c.as_char() == ':' && a.as_char() == '&');
                    names.push((id.to_string(), is_ref));
                    expect_name = false;
                }
            }
            _ => {}
        }
        i += 1;
    }
    Ok(names)
}

#[derive(Default, Debug)]
struct HoleDirs {
    subst: Vec<(String, String)>,
    closures: BTreeMap<usize, String>,
    loops: BTreeMap<usize, String>,
    before: Vec<(String, String)>,
    after: Vec<(String, String)>,
    replace: Vec<(String, String, String)>,
    self_name: Option<String>,
    nosig: bool,
    probe: Option<String>,
    split: Option<BTreeMap<String, String>>,
    snaps: Vec<(String, String)>,
    first: Vec<String>,
    replace_opt: Vec<(String, String, String)>,
    replace_all: Vec<(String, String, String)>,
    before_opt: Vec<(String, String)>,
    after_opt: Vec<(String, String)>,
    loopstart: BTreeMap<usize, String>,
    loopend: BTreeMap<usize, String>,
}

fn parse_quoted(s: &str) -> R<(String, &str)> {
    let s = s.trim_start();
    if !s.starts_with('"') {
        return bail(format!("expected quoted snippet in directive: {s}"));
    }
    let mut out = String::new();
    let mut it = s[1..].char_indices();
    while let Some((i, c)) = it.next() {
        match c {
            '\\' => {
                if let Some((_, n)) = it.next() {
                    out.push(match n {
                        'n' => '\n',
                        other => other,
                    });
                }
            }
            '"' => return Ok((out, &s[1 + i + 1..])),
            c => out.push(c),
        }
    }
    bail("unterminated quoted snippet in directive")
}

fn parse_dirs(lines: &[&str]) -> R<HoleDirs> {
    // join continuation lines: a directive starts with a keyword at line start (after trim)
    let kws = ["subst ", "closure ", "loop ", "before ", "after ", "beforeopt ", "afteropt ", "replace ", "replaceopt ", "replaceall ", "selfname ", "nosig", "probe ", "hint ", "split ", "snap ", "first ", "loopstart ", "loopend "];
    let mut items: Vec<String> = Vec::new();
    for l in lines {
        let t = l.trim();
        if t.is_empty() {
            continue;
        }
        if kws.iter().any(|k| t.starts_with(k) || t == k.trim()) {
            items.push(t.to_string());
        } else if let Some(last) = items.last_mut() {
            last.push('\n');
            last.push_str(l);
        } else {
            return bail(format!("stray text in hole: {t}"));
        }
    }
    let mut d = HoleDirs::default();
    for it in items {
        if it == "nosig" {
            d.nosig = true;
        } else if let Some(rest) = it.strip_prefix("subst ") {
            for kv in rest.split_whitespace() {
                let (k, v) = kv.split_once('=').ok_or_else(|| Bail(format!("bad subst {kv}")))?;
                d.subst.push((k.to_string(), v.to_string()));
            }
        } else if let Some(rest) = it.strip_prefix("probe ").or_else(|| it.strip_prefix("hint ")) {
            d.probe = Some(rest.trim().to_string());
        } else if let Some(rest) = it.strip_prefix("split ") {
            // split enum=E params="..." args="..." ret="..."
            let mut m = BTreeMap::new();
            let mut rest = rest.trim();
            while !rest.is_empty() {
                let (k, r) = rest.split_once('=').ok_or_else(|| Bail(format!("bad split directive near `{rest}`")))?;
                let r = r.trim_start();
                if r.starts_with('"') {
                    let (v, r2) = parse_quoted(r)?;
                    m.insert(k.trim().to_string(), v);
                    rest = r2.trim_start();
                } else {
                    let (v, r2) = r.split_once(char::is_whitespace).unwrap_or((r, ""));
                    m.insert(k.trim().to_string(), v.to_string());
                    rest = r2.trim_start();
                }
            }
            d.split = Some(m);
        } else if let Some(rest) = it.strip_prefix("loopstart ").or_else(|| it.strip_prefix("loopend ")) {
            let (n, text) = rest.split_once("=>").ok_or_else(|| Bail(format!("bad loopstart/loopend directive {it}")))?;
            let ord: usize = n.trim().parse().map_err(|_| Bail(format!("bad loop ordinal {n}")))?;
            if it.starts_with("loopstart") {
                d.loopstart.insert(ord, text.trim().to_string());
            } else {
                d.loopend.insert(ord, text.trim().to_string());
            }
        } else if let Some(rest) = it.strip_prefix("first ") {
            d.first.push(rest.trim().trim_start_matches("=>").trim().to_string());
        } else if let Some(rest) = it.strip_prefix("snap ") {
            let (k, v) = rest.split_once('=').ok_or_else(|| Bail(format!("bad snap {rest}")))?;
            d.snaps.push((k.trim().to_string(), v.trim().to_string()));
        } else if let Some(rest) = it.strip_prefix("selfname ") {
            d.self_name = Some(rest.trim().to_string());
        } else if let Some(rest) = it.strip_prefix("closure ") {
            let (n, head) = rest.split_once("=>").ok_or_else(|| Bail(format!("bad closure directive {it}")))?;
            d.closures.insert(n.trim().parse().map_err(|_| Bail(format!("bad closure ordinal {n}")))?, head.trim().to_string());
        } else if let Some(rest) = it.strip_prefix("loop ") {
            let (n, spec) = rest.split_once("=>").ok_or_else(|| Bail(format!("bad loop directive {it}")))?;
            let mut nn = n.trim().split_whitespace();
            let ord: usize = nn.next().unwrap_or("").parse().map_err(|_| Bail(format!("bad loop ordinal {n}")))?;
            let mut spec = spec.trim().to_string();
            if let Some(opt) = nn.next() {
                spec = format!("{opt} {spec}");
            }
            d.loops.insert(ord, spec);
        } else if let Some(rest) = it.strip_prefix("beforeopt ") {
            let (q, r) = parse_quoted(rest)?;
            let t = r.trim_start().strip_prefix("=>").ok_or_else(|| Bail("beforeopt: missing =>".into()))?;
            d.before_opt.push((q, t.trim().to_string()));
        } else if let Some(rest) = it.strip_prefix("afteropt ") {
            let (q, r) = parse_quoted(rest)?;
            let t = r.trim_start().strip_prefix("=>").ok_or_else(|| Bail("afteropt: missing =>".into()))?;
            d.after_opt.push((q, t.trim().to_string()));
        } else if let Some(rest) = it.strip_prefix("before ") {
            let (q, r) = parse_quoted(rest)?;
            let t = r.trim_start().strip_prefix("=>").ok_or_else(|| Bail("before: missing =>".into()))?;
            d.before.push((q, t.trim().to_string()));
        } else if let Some(rest) = it.strip_prefix("after ") {
            let (q, r) = parse_quoted(rest)?;
            let t = r.trim_start().strip_prefix("=>").ok_or_else(|| Bail("after: missing =>".into()))?;
            d.after.push((q, t.trim().to_string()));
        } else if let Some(rest) = it.strip_prefix("replaceall ") {
            // every occurrence (zero or more) of a call that occurs several times in one body
            let (q, r) = parse_quoted(rest)?;
            let t = r.trim_start().strip_prefix("=>").ok_or_else(|| Bail("replaceall: missing =>".into()))?;
            let (q2, r2) = parse_quoted(t)?;
            let why = r2.trim_start().strip_prefix("::").unwrap_or("").trim().to_string();
            d.replace_all.push((q, q2, why));
        } else if let Some(rest) = it.strip_prefix("replaceopt ") {
            // like `replace`, but a missing snippet is not a lost anchor (the contract must then fail on its own)
            let (q, r) = parse_quoted(rest)?;
            let t = r.trim_start().strip_prefix("=>").ok_or_else(|| Bail("replaceopt: missing =>".into()))?;
            let (q2, r2) = parse_quoted(t)?;
            let why = r2.trim_start().strip_prefix("::").unwrap_or("").trim().to_string();
            d.replace_opt.push((q, q2, why));
        } else if let Some(rest) = it.strip_prefix("replace ") {
            let (q, r) = parse_quoted(rest)?;
            let t = r.trim_start().strip_prefix("=>").ok_or_else(|| Bail("replace: missing =>".into()))?;
            let (q2, r2) = parse_quoted(t)?;
            let why = r2.trim_start().strip_prefix("::").unwrap_or("").trim().to_string();
            if why.is_empty() {
                return bail("replace directive needs a `:: reason`");
            }
            d.replace.push((q, q2, why));
        }
    }
    Ok(d)
}

enum FnRef<'a> {
    Impl(&'a syn::ImplItemFn),
    Trait(&'a syn::TraitItemFn),
    Free(&'a syn::ItemFn),
}
impl<'a> FnRef<'a> {
    fn sig(&self) -> &'a syn::Signature {
        match self {
            FnRef::Impl(f) => &f.sig,
            FnRef::Trait(f) => &f.sig,
            FnRef::Free(f) => &f.sig,
        }
    }
    fn block(&self) -> R<&'a syn::Block> {
        match self {
            FnRef::Impl(f) => Ok(&f.block),
            FnRef::Trait(f) => f.default.as_ref().ok_or_else(|| Bail("trait method has no default body".into())),
            FnRef::Free(f) => Ok(&f.block),
        }
    }
    fn span(&self) -> Span {
        match self {
            FnRef::Impl(f) => f.span(),
            FnRef::Trait(f) => f.span(),
            FnRef::Free(f) => f.span(),
        }
    }
}

fn impl_key(i: &syn::ItemImpl) -> String {
    use quote::ToTokens;
    let ty = norm_tokens(i.self_ty.to_token_stream());
    match &i.trait_ {
        Some((_, p, _)) => format!("impl {} for {}", norm_tokens(p.to_token_stream()), ty),
        None => format!("impl {ty}"),
    }
}

/// all items of a file, descending into inline modules (macro-expanded crates nest everything)
fn all_items<'a>(items: &'a [syn::Item], out: &mut Vec<&'a syn::Item>) {
    for it in items {
        if let syn::Item::Mod(im) = it {
            if im.ident == "test" || im.ident == "tests" {
                continue;
            }
            if let Some((_, inner)) = &im.content {
                all_items(inner, out);
            }
        } else {
            out.push(it);
        }
    }
}

/// Path simplification used only for *matching* impl headers: keep the last segment of every
/// path, and apply T9 (`<Stack<X> as StackType>::Type` is `X` by the single blanket impl).
fn simplify_key(s: &str) -> String {
    let toks: Vec<&str> = s.split(' ').filter(|t| !t.is_empty()).collect();
    // drop `ident : :` prefixes and leading `: :`
    let mut out: Vec<&str> = Vec::new();
    let mut i = 0;
    while i < toks.len() {
        if toks[i] == ":" && toks.get(i + 1) == Some(&":") {
            // path separator: drop it and the segment before it (if it is an identifier)
            if let Some(last) = out.last() {
                if last.chars().all(|c| c.is_alphanumeric() || c == '_')
                    && !["as", "for", "impl", "dyn", "mut", "const", "where"].contains(last)
                {
                    out.pop();
                }
            }
            i += 2;
            continue;
        }
        out.push(toks[i]);
        i += 1;
    }
    let mut k = out.join(" ");
    // T9
    loop {
        let Some(a) = k.find("< Stack < ") else { break };
        let rest = &k[a + "< Stack < ".len()..];
        let Some(b) = rest.find(" > as StackType > Type") else { break };
        let inner = rest[..b].to_string();
        // `> as StackType > :: Type` lost its `::` above (Type kept): pattern is "> as StackType > Type"
        k = format!("{}{}{}", &k[..a], inner, &rest[b + " > as StackType > Type".len()..]);
    }
    k
}

fn find_fn<'a>(file: &'a syn::File, container: &str, name: &str) -> R<FnRef<'a>> {
    let container = container.trim();
    let want = if container == "-" { String::new() } else { norm_str(container)? };
    let mut hits: Vec<FnRef<'a>> = Vec::new();
    let want = simplify_key(&want);
    let mut items = Vec::new();
    all_items(&file.items, &mut items);
    for it in items {
        match it {
            syn::Item::Fn(f) if want.is_empty() && f.sig.ident == name => hits.push(FnRef::Free(f)),
            syn::Item::Impl(i) if simplify_key(&impl_key(i)) == want => {
                for ii in &i.items {
                    if let syn::ImplItem::Fn(f) = ii {
                        if f.sig.ident == name {
                            hits.push(FnRef::Impl(f));
                        }
                    }
                }
            }
            syn::Item::Trait(t) => {
                use quote::ToTokens;
                let mut key = format!("trait {}", t.ident);
                if !t.generics.params.is_empty() {
                    let g = norm_tokens(t.generics.params.to_token_stream());
                    key = format!("trait {} < {} >", t.ident, g);
                }
                // a trait may also be named without its generic parameters (defaults make the full key unwieldy)
                if key == want || format!("trait {}", t.ident) == want {
                    for ti in &t.items {
                        if let syn::TraitItem::Fn(f) = ti {
                            if f.sig.ident == name {
                                hits.push(FnRef::Trait(f));
                            }
                        }
                    }
                }
            }
            _ => {}
        }
    }
    match hits.len() {
        1 => Ok(hits.pop().unwrap()),
        0 => bail(format!("lost anchor: fn `{name}` in `{container}` not found")),
        n => bail(format!("ambiguous anchor: {n} fns `{name}` in `{container}`")),
    }
}

fn subst_tokens(s: &str, subst: &[(String, String)]) -> String {
    // token-wise identifier substitution on a normalised token string
    s.split(' ')
        .map(|t| subst.iter().find(|(k, _)| k == t).map_or(t.to_string(), |(_, v)| v.clone()))
        .collect::<Vec<_>>()
        .join(" ")
}

/// Signature of the real fn, normalised: "( inputs ) -> ret"
fn real_sig_key(sig: &syn::Signature, subst: &[(String, String)], fired: &mut Vec<String>) -> String {
    use quote::ToTokens;
    let mut ins: Vec<String> = Vec::new();
    for a in &sig.inputs {
        match a {
            syn::FnArg::Receiver(r) => {
                let mut s = String::new();
                if r.reference.is_some() {
                    s.push_str("& ");
                    if let Some((_, Some(lt))) = &r.reference {
                        let _ = write!(s, "{} ", lt.to_token_stream());
                    }
                    if r.mutability.is_some() {
                        s.push_str("mut ");
                    }
                } else if r.mutability.is_some() {
                    fired.push("T1 mut-self".into());
                }
                s.push_str("self");
                ins.push(s);
            }
            syn::FnArg::Typed(t) => {
                let mut t2 = t.clone();
                t2.attrs.clear();
                ins.push(norm_tokens(t2.to_token_stream()));
            }
        }
    }
    let ret = match &sig.output {
        syn::ReturnType::Default => String::new(),
        syn::ReturnType::Type(_, t) => format!(" - > {}", norm_tokens(t.to_token_stream())),
    };
    subst_tokens(&format!("( {} ){}", ins.join(" , "), ret), subst)
}

/// Signature written in the template, normalised the same way.
fn template_sig_key(sig_text: &str) -> R<String> {
    let ts = TokenStream::from_str(sig_text).map_err(|e| Bail(format!("template signature: {e}")))?;
    let toks: Vec<TokenTree> = ts.into_iter().collect();
    // find the parameter list: first parenthesis group after `fn name [<..>]`
    let mut i = 0;
    while i < toks.len() {
        if let TokenTree::Group(g) = &toks[i] {
            if g.delimiter() == Delimiter::Parenthesis {
                break;
            }
        }
        i += 1;
    }
    let Some(TokenTree::Group(params)) = toks.get(i) else {
        return bail("template signature has no parameter list");
    };
    // params: split on top-level commas, normalise each, drop empty
    let mut ins: Vec<String> = Vec::new();
    let mut cur: Vec<TokenTree> = Vec::new();
    let mut angle = 0;
    let mut prev_dash = false;
    for tt in params.stream() {
        let was_dash = prev_dash;
        prev_dash = matches!(&tt, TokenTree::Punct(p) if p.as_char() == '-');
        match &tt {
            TokenTree::Punct(p) if p.as_char() == '<' => angle += 1,
            TokenTree::Punct(p) if p.as_char() == '>' && was_dash => {}
            TokenTree::Punct(p) if p.as_char() == '>' => angle -= 1,
            TokenTree::Punct(p) if p.as_char() == ',' && angle == 0 => {
                ins.push(norm_tokens(cur.drain(..).collect()));
                continue;
            }
            _ => {}
        }
        cur.push(tt);
    }
    if !cur.is_empty() {
        ins.push(norm_tokens(cur.into_iter().collect()));
    }
    // return type
    let mut ret = String::new();
    let rest = &toks[i + 1..];
    if rest.len() >= 2 {
        if let (TokenTree::Punct(a), TokenTree::Punct(b)) = (&rest[0], &rest[1]) {
            if a.as_char() == '-' && b.as_char() == '>' {
                let mut rt: Vec<TokenTree> = Vec::new();
                for tt in &rest[2..] {
                    if let TokenTree::Ident(id) = tt {
                        if id == "where" {
                            break;
                        }
                    }
                    rt.push(tt.clone());
                }
                // named return `(r: T)`
                if rt.len() == 1 {
                    if let TokenTree::Group(g) = &rt[0] {
                        if g.delimiter() == Delimiter::Parenthesis {
                            let inner: Vec<TokenTree> = g.stream().into_iter().collect();
                            if inner.len() >= 3 {
                                if let (TokenTree::Ident(_), TokenTree::Punct(c)) = (&inner[0], &inner[1]) {
                                    if c.as_char() == ':' && c.spacing() == proc_macro2::Spacing::Alone {
                                        rt = inner[2..].to_vec();
                                    }
                                }
                            }
                        }
                    }
                }
                ret = format!(" - > {}", norm_tokens(rt.into_iter().collect()));
            }
        }
    }
    Ok(format!("( {} ){}", ins.join(" , "), ret))
}

fn transform_body(
    src: &SrcFile,
    f: &FnRef,
    dirs: &HoleDirs,
    fired: &mut Vec<String>,
    force_this: Option<&str>,
) -> R<String> {
    let block = f.block()?;
    let (lo, hi) = range(block.span());
    let mut edits: Vec<Edit> = Vec::new();
    let mut col = Collector::default();
    col.visit_block(block);

    // T6: attributes inside the body
    for a in &col.attrs {
        let (s, e) = range(*a);
        edits.push(Edit { start: s, end: e, text: String::new() });
        fired.push(format!("T6 attr@{}", a.start().line));
    }
    // T5: panic-family macros: message arguments dropped, and an explicit (labelled) proof obligation
    // `assert(false)` placed in front, so that an unprovable unreachable!() is reported as a failed assertion
    for m in &col.macros {
        let name = m.path.segments.last().map(|s| s.ident.to_string()).unwrap_or_default();
        if ["unreachable", "panic", "unimplemented", "todo"].contains(&name.as_str()) {
            let (s0, _) = range(m.path.span());
            let (_, e) = range(m.delimiter.span().join());
            edits.push(Edit { start: s0, end: e, text: format!("({{ proof {{ assert(false); }} {name}!() }})") });
            fired.push(format!("T5 {name}!@{}", m.span().start().line));
        }
    }
    // T1: `mut self` receiver
    let mut prefix = String::new();
    let mut_self = f.sig().inputs.iter().any(|a| matches!(a, syn::FnArg::Receiver(r) if r.reference.is_none() && r.mutability.is_some()));
    let this = dirs.self_name.clone().unwrap_or_else(|| "this".to_string());
    // token scans: T1 rename, T4 exec keyword, T7 substitution
    {
        use quote::ToTokens;
        let mut f_ident = |id: &proc_macro2::Ident| {
            let s = id.to_string();
            let (a, b) = range(id.span());
            if a < lo || b > hi || a == b {
                return;
            }
            if (mut_self || force_this.is_some()) && s == "self" {
                edits.push(Edit { start: a, end: b, text: this.clone() });
            } else if force_this.is_some() && s == "Self" {
                edits.push(Edit { start: a, end: b, text: force_this.unwrap_or("Self").to_string() });
            } else if s == "r#else" {
                // T15: Verus' SMT encoding breaks on a local named `r#else`; alpha-rename it
                edits.push(Edit { start: a, end: b, text: "else_vx".into() });
                fired.push(format!("T15 r#else->else_vx@{}", id.span().start().line));
            } else if s == "exec" {
                edits.push(Edit { start: a, end: b, text: "r#exec".into() });
                fired.push(format!("T4 exec@{}", id.span().start().line));
            } else if let Some((_, v)) = dirs.subst.iter().find(|(k, _)| *k == s) {
                edits.push(Edit { start: a, end: b, text: v.clone() });
                fired.push(format!("T7 {s}:={v}@{}", id.span().start().line));
            }
        };
        scan_idents(block.to_token_stream(), &mut f_ident);
    }
    // ghost-only text placed first in the body (e.g. `broadcast use ..;`)
    for f in &dirs.first {
        let _ = write!(prefix, "{f} ");
    }
    // ghost snapshots of entry values (for hints that must mention the initial value of a `mut` parameter)
    for (k, v) in &dirs.snaps {
        let _ = write!(prefix, "let ghost {k} = {v}; ");
    }
    if mut_self {
        let _ = write!(prefix, "let mut {this} = self; ");
    }
    // `{self:?}`-style inline format args only occur inside T5-dropped macros; nothing else to do.

    // closures
    col.closures.sort_by_key(|c| range(c.span()).0);
    for (n, c) in col.closures.iter().enumerate() {
        let has_pattern = c.inputs.iter().any(|p| {
            let mut p = p;
            if let syn::Pat::Type(t) = p {
                p = &t.pat;
            }
            !matches!(p, syn::Pat::Ident(pi) if pi.by_ref.is_none() && pi.subpat.is_none())
        });
        match dirs.closures.get(&n) {
            None => {
                if has_pattern {
                    return bail(format!(
                        "closure #{n} at line {} has pattern parameters and no overlay head (T2 needs types)",
                        c.span().start().line
                    ));
                }
            }
            Some(head) => {
                let names = head_param_names(head)?;
                if names.len() != c.inputs.len() {
                    return bail(format!(
                        "closure #{n}: overlay head has {} parameters, source has {}",
                        names.len(),
                        c.inputs.len()
                    ));
                }
                let mut lets: Vec<String> = Vec::new();
                for (p, (nm, ty_is_ref)) in c.inputs.iter().zip(&names) {
                    let mut inner = p;
                    if let syn::Pat::Type(t) = inner {
                        inner = &t.pat;
                    }
                    match inner {
                        syn::Pat::Ident(pi) if pi.by_ref.is_none() && pi.subpat.is_none() => {
                            if pi.ident != nm {
                                return bail(format!(
                                    "closure #{n}: overlay names parameter `{nm}` but source calls it `{}`",
                                    pi.ident
                                ));
                            }
                        }
                        other => {
                            // match ergonomics: a non-reference pattern against a `&T` parameter binds by reference
                            let by_ref = *ty_is_ref && !matches!(other, syn::Pat::Reference(_));
                            compile_pat(other, nm, by_ref, &mut lets)?;
                            fired.push(format!("T2 closure#{n}@{}", c.span().start().line));
                        }
                    }
                }
                let (cs, _) = range(c.span());
                let (bs, be) = range(c.body.span());
                // closure head: from closure start up to the body
                edits.push(Edit { start: cs, end: bs, text: format!("{head} ") });
                fired.push(format!("T3 closure#{n}@{}", c.span().start().line));
                let lets = lets.join(" ");
                if let syn::Expr::Block(_) = &*c.body {
                    if !lets.is_empty() {
                        edits.push(Edit { start: bs + 1, end: bs + 1, text: format!(" {lets} ") });
                    }
                } else {
                    edits.push(Edit { start: bs, end: bs, text: format!("{{ {lets} ") });
                    edits.push(Edit { start: be, end: be, text: " }".into() });
                }
            }
        }
    }
    for n in dirs.closures.keys() {
        if *n >= col.closures.len() {
            return bail(format!("lost anchor: overlay names closure #{n}, body has {}", col.closures.len()));
        }
    }
    // loops
    col.loops.sort_by_key(|l| range(l.0).0);
    for (n, spec) in &dirs.loops {
        let Some((whole, body, wild)) = col.loops.get(*n) else {
            return bail(format!("lost anchor: overlay names loop #{n}, body has {}", col.loops.len()));
        };
        let (bs, _) = range(*body);
        let mut spec = spec.as_str();
        // T19: `for x in e` — the ghost iterator Verus creates is given a name (`for x in NAME: e`), pure annotation
        if let Some(rest) = spec.strip_prefix("iter=") {
            let (nm, tail) = rest.split_once(char::is_whitespace).unwrap_or((rest, ""));
            match col.for_exprs.get(&range(*whole).0) {
                Some(e) => {
                    let (es, _) = range(*e);
                    edits.push(Edit { start: es, end: es, text: format!("{nm}: ") });
                    fired.push(format!("T19 for-loop ghost iterator named {nm}"));
                }
                None => return bail(format!("loop #{n}: iter= given but the loop is not a `for` loop")),
            }
            spec = tail.trim_start();
        }
        // T11: `for _ in ..` — the wildcard is given a name so the invariant can mention the index
        if let Some(rest) = spec.strip_prefix("name=") {
            let (nm, tail) = rest.split_once(char::is_whitespace).unwrap_or((rest, ""));
            match wild {
                Some(w) => {
                    let (ws, we) = range(*w);
                    edits.push(Edit { start: ws, end: we, text: nm.to_string() });
                    fired.push(format!("T11 for-wildcard named {nm}@{}", w.start().line));
                }
                None => return bail(format!("loop #{n}: name= given but the loop pattern is not `_`")),
            }
            spec = tail.trim_start();
        }
        edits.push(Edit { start: bs, end: bs, text: format!("\n{spec}\n") });
    }
    // structural ghost anchors: first / last position inside a loop body (robust against renames)
    for (n, text) in &dirs.loopstart {
        let Some((_, body, _)) = col.loops.get(*n) else {
            return bail(format!("lost anchor: loopstart names loop #{n}"));
        };
        let (bs, _) = range(*body);
        edits.push(Edit { start: bs + 1, end: bs + 1, text: format!(" {text} ") });
    }
    for (n, text) in &dirs.loopend {
        let Some((_, body, _)) = col.loops.get(*n) else {
            return bail(format!("lost anchor: loopend names loop #{n}"));
        };
        let (_, be) = range(*body);
        edits.push(Edit { start: be - 1, end: be - 1, text: format!(" {text} ") });
    }
    if col.loops.len() != dirs.loops.len() {
        return bail(format!(
            "body has {} loops but overlay gives invariants for {} (every loop needs one)",
            col.loops.len(),
            dirs.loops.len()
        ));
    }
    // textual anchors (proof insertions) — must be unique in the original body text
    let body_text = &src.text[lo..hi];
    let locate = |snip: &str| -> R<usize> {
        let mut it = body_text.match_indices(snip);
        let first = it.next().ok_or_else(|| Bail(format!("lost anchor: snippet `{snip}` not in body")))?;
        if it.next().is_some() {
            return bail(format!("ambiguous anchor: snippet `{snip}` occurs more than once"));
        }
        Ok(lo + first.0)
    };
    for (snip, text) in &dirs.before {
        let p = locate(snip)?;
        edits.push(Edit { start: p, end: p, text: format!("{text} ") });
    }
    for (snip, text) in &dirs.after {
        let p = locate(snip)? + snip.len();
        edits.push(Edit { start: p, end: p, text: format!(" {text}") });
    }
    for (snip, text) in &dirs.before_opt {
        if let Ok(p) = locate(snip) {
            edits.push(Edit { start: p, end: p, text: format!("{text} ") });
        }
    }
    for (snip, text) in &dirs.after_opt {
        if let Ok(p) = locate(snip) {
            let p = p + snip.len();
            edits.push(Edit { start: p, end: p, text: format!(" {text}") });
        }
    }
    for (snip, text, why) in &dirs.replace_all {
        for (off, _) in body_text.match_indices(snip.as_str()) {
            let p = lo + off;
            edits.push(Edit { start: p, end: p + snip.len(), text: text.clone() });
            fired.push(format!("REWRITE `{snip}` => `{text}` ({why})"));
        }
    }
    for (snip, text, why) in &dirs.replace_opt {
        if let Ok(p) = locate(snip) {
            edits.push(Edit { start: p, end: p + snip.len(), text: text.clone() });
            fired.push(format!("REWRITE `{snip}` => `{text}` ({why})"));
        }
    }
    for (snip, text, why) in &dirs.replace {
        let p = locate(snip)?;
        edits.push(Edit { start: p, end: p + snip.len(), text: text.clone() });
        fired.push(format!("REWRITE `{snip}` => `{text}` ({why})"));
    }
    let inner = apply_edits(&src.text, lo + 1, hi - 1, edits)?;
    if let Some(p) = &dirs.probe {
        // ghost-only clause localisation: bind the tail value, assert the clauses, return it
        fired.push("GHOST tail-hint (body value bound to __r, proof block, __r returned)".into());
        return Ok(format!("{{ {prefix}let __r = {{ {inner} }}; proof {{ {p} }} __r }}"));
    }
    Ok(format!("{{ {prefix}{inner}}}"))
}

fn strip_item_attrs(src: &SrcFile, item_span: Span, attrs_all: Vec<(Span, Option<String>)>, fired: &mut Vec<String>) -> R<String> {
    let (lo, hi) = range(item_span);
    let mut edits = Vec::new();
    for (sp, keep) in attrs_all {
        let (s, e) = range(sp);
        match keep {
            Some(text) => edits.push(Edit { start: s, end: e, text }),
            None => edits.push(Edit { start: s, end: e, text: String::new() }),
        }
    }
    fired.push("T6 attrs".into());
    apply_edits(&src.text, lo, hi, edits)
}

struct AttrCollector {
    attrs: Vec<(Span, Option<String>)>,
    idents: Vec<Span>,
}
impl<'a> Visit<'a> for AttrCollector {
    fn visit_attribute(&mut self, a: &'a syn::Attribute) {
        let mut keep = None;
        if a.path().is_ident("derive") {
            // keep only derives Verus understands
            let allowed = ["Clone", "Copy", "PartialEq", "Eq", "Default"];
            let mut kept: Vec<String> = Vec::new();
            let _ = a.parse_nested_meta(|m| {
                if let Some(id) = m.path.get_ident() {
                    if allowed.contains(&id.to_string().as_str()) {
                        kept.push(id.to_string());
                    }
                }
                Ok(())
            });
            if !kept.is_empty() {
                keep = Some(format!("#[derive({})]", kept.join(", ")));
            }
        }
        self.attrs.push((a.span(), keep));
    }
    fn visit_visibility(&mut self, v: &'a syn::Visibility) {
        // T12: `pub(super)` / `pub(crate)` -> `pub` (the assembled file is one module)
        if let syn::Visibility::Restricted(r) = v {
            self.attrs.push((r.span(), Some("pub".into())));
        }
    }
    fn visit_ident(&mut self, i: &'a proc_macro2::Ident) {
        if i == "exec" {
            self.idents.push(i.span());
        }
    }
}

fn extract_item(ctx: &mut Ctx, rel: &str, kind: &str, name: &str, opts: &str) -> R<String> {
    let src = ctx.load(rel)?;
    let mut fired = Vec::new();
    let mut found: Option<&syn::Item> = None;
    let mut items = Vec::new();
    all_items(&src.ast.items, &mut items);
    for it in items {
        let ok = match (kind, it) {
            ("struct", syn::Item::Struct(s)) => s.ident == name,
            ("enum", syn::Item::Enum(s)) => s.ident == name,
            ("type", syn::Item::Type(s)) => s.ident == name,
            ("const", syn::Item::Const(s)) => s.ident == name,
            ("trait", syn::Item::Trait(s)) => s.ident == name,
            _ => false,
        };
        if ok {
            if found.is_some() {
                return bail(format!("ambiguous anchor: {kind} {name} in {rel}"));
            }
            found = Some(it);
        }
    }
    let it = found.ok_or_else(|| Bail(format!("lost anchor: {kind} {name} in {rel}")))?;
    let mut ac = AttrCollector { attrs: vec![], idents: vec![] };
    ac.visit_item(it);
    let noderive = opts.contains("noderive");
    let mut attrs = ac.attrs;
    if noderive {
        for a in &mut attrs {
            a.1 = None;
        }
    }
    // `derive=A,B`: keep exactly these (they must be present in the source derive list)
    if let Some(want) = opts.split_whitespace().find_map(|o| o.strip_prefix("derive=")) {
        let want: Vec<&str> = want.split(',').collect();
        for a in &mut attrs {
            if let Some(text) = &a.1 {
                if text.starts_with("#[derive(") {
                    let have: Vec<&str> = text["#[derive(".len()..text.len() - 2].split(", ").collect();
                    for w in &want {
                        if !have.contains(w) {
                            return bail(format!("lost anchor: {kind} {name} no longer derives {w}"));
                        }
                    }
                    a.1 = Some(format!("#[derive({})]", want.join(", ")));
                }
            }
        }
    }
    for sp in ac.idents {
        attrs.push((sp, Some("r#exec".into())));
        fired.push("T4 exec".into());
    }
    let text = strip_item_attrs(src, it.span(), attrs, &mut fired)?;
    let (l0, l1) = (it.span().start().line, it.span().end().line);
    let rec = json!({"kind":"item","file":rel,"item":format!("{kind} {name}"),"lines":[l0,l1],
        "hash":fnv(&src.text[range(it.span()).0..range(it.span()).1]),"transforms":fired});
    ctx.record.push(rec);
    Ok(text)
}


#[allow(clippy::too_many_arguments)]
fn check_sig(template_name: &str, tpl: &str, hole_start: usize, name: &str, f: &FnRef, subst: &[(String, String)], nosig: bool, fired: &mut Vec<String>, rel: &str, container: &str) -> R<String> {
    // signature check against the template text preceding the hole
    let before = &tpl[..hole_start];
    let needle = format!("fn {name}");
    let mut sig_pos = None;
    for (i, _) in before.rmatch_indices(&needle) {
        let after = before[i + needle.len()..].chars().next();
        if matches!(after, Some(c) if c == '(' || c == '<' || c.is_whitespace()) {
            sig_pos = Some(i);
            break;
        }
    }
    if sig_pos.is_none() && nosig {
        // the template gives the function another name (two impls of one trait method on one type) and its own signature
        return Ok(real_sig_key(f.sig(), subst, fired));
    }
    let sig_pos = sig_pos.ok_or_else(|| Bail(format!("template {template_name}: no `fn {name}` before its hole")))?;
    let mut sig_text = &before[sig_pos..];
    // cut at first spec keyword at line start
    let mut cut = sig_text.len();
    for kw in ["requires", "ensures", "decreases", "recommends", "no_unwind", "opens_invariants", "returns"] {
        for (i, _) in sig_text.match_indices(kw) {
            let pre_ok = sig_text[..i].chars().rev().next().map_or(true, |c| c.is_whitespace());
            let post_ok = sig_text[i + kw.len()..].chars().next().map_or(true, |c| c.is_whitespace());
            if pre_ok && post_ok && i < cut {
                cut = i;
            }
        }
    }
    if let Some(i) = sig_text.find("{ unimplemented!()") {
        cut = cut.min(i);
    }
    sig_text = &sig_text[..cut];
    let real = real_sig_key(f.sig(), subst, fired);
    if !nosig {
        let tsig = template_sig_key(sig_text)?;
        if simplify_key(&tsig) != simplify_key(&real) {
            return bail(format!(
                "signature drift for {rel} :: {container} :: {name}\n  template: {tsig}\n  source:   {real}"
            ));
        }
    }
    Ok(real)
}

fn fill_hole(ctx: &mut Ctx, template_name: &str, tpl: &str, hole_start: usize, header: &str, dir_lines: &[&str]) -> R<String> {
    let parts: Vec<&str> = header.split("::").map(str::trim).collect();
    // header: <file> :: <container> :: <fn>   (container may itself contain `::`)
    if parts.len() < 3 {
        return bail(format!("bad @body header `{header}`"));
    }
    let rel = parts[0];
    let name = parts[parts.len() - 1];
    let container = parts[1..parts.len() - 1].join("::");
    let dirs = parse_dirs(dir_lines)?;
    let src = ctx.load(rel)?;
    let f = find_fn(&src.ast, &container, name)?;
    let mut fired: Vec<String> = Vec::new();
    let real = check_sig(template_name, tpl, hole_start, name, &f, &dirs.subst, dirs.nosig, &mut fired, rel, &container)?;
    let body = transform_body(src, &f, &dirs, &mut fired, None)?;
    // per-variant obligation split (same real body, extra precondition `this is V`): localises failures
    let mut split_text = String::new();
    if let Some(sp) = &dirs.split {
        let en = sp.get("enum").cloned().unwrap_or_default();
        let params = sp.get("params").cloned().unwrap_or_default();
        let args = sp.get("args").cloned().unwrap_or_default();
        let ret = sp.get("ret").cloned().unwrap_or_default();
        let mut items = Vec::new();
        all_items(&src.ast.items, &mut items);
        let mut variants: Vec<String> = Vec::new();
        for it in items {
            if let syn::Item::Enum(e) = it {
                if e.ident == en {
                    variants = e.variants.iter().map(|v| v.ident.to_string()).collect();
                }
            }
        }
        if variants.is_empty() {
            return bail(format!("lost anchor: enum {en} for split not found in {rel}"));
        }
        let mut f2 = Vec::new();
        let b2 = transform_body(src, &f, &dirs, &mut f2, Some(&en))?;
        let clauses = sp.get("clauses").cloned().unwrap_or_else(|| format!("this.post({args}, r)"));
        for v in variants {
            let mut ens = String::new();
            for c in clauses.split(";;") {
                let c = c.trim();
                // `[C01 C02: name] clause`
                if let Some(rest) = c.strip_prefix('[') {
                    if let Some((lab, cl)) = rest.split_once(']') {
                        let (ids, nm) = lab.split_once(':').unwrap_or((lab, ""));
                        let _ = write!(ens, "        // [{}: {}::{v} {}]\n        {},\n", ids.trim(), en, nm.trim(), cl.trim());
                        continue;
                    }
                }
                let _ = write!(ens, "        {c},\n");
            }
            let _ = write!(split_text, "\n#[verifier::spinoff_prover]\nfn {name}__{en}__{v}(this: &{en}, {params}) -> (r: {ret})\n    requires *this is {v}, this.pre({args}),\n    ensures\n{ens}{b2}\n");
        }
    }
    let sp = f.span();
    let (a, b) = range(sp);
    let rec = json!({"kind":"fn","file":rel,"container":container,"fn":name,
        "lines":[sp.start().line, sp.end().line],"hash":fnv(&src.text[a..b]),
        "signature":real,"transforms":fired,"template":template_name});
    ctx.record.push(rec);
    ctx.splits.push_str(&split_text);
    Ok(body)
}

fn process_template(ctx: &mut Ctx, name: &str, tpl: &str) -> R<String> {
    let mut out = String::new();
    let mut pos = 0;
    loop {
        // next directive: `//@item` line or `{@body`
        if let Some(i) = tpl[pos..].find("//@splits") {
            let sp = pos + i;
            let first_other = ["{@body", "//@item", "//@sig", "//@expect"].iter().filter_map(|k| tpl[pos..].find(k).map(|j| pos + j)).min();
            if first_other.map_or(true, |o| sp < o) {
                out.push_str(&tpl[pos..sp]);
                out.push_str("// per-variant obligation split (generated; same real body under `requires *this is V`)");
                out.push_str(&std::mem::take(&mut ctx.splits));
                pos = sp + "//@splits".len();
                continue;
            }
        }
        // `//@expect <file> :: "text"`: the source must still contain this text (guards hand-written stand-ins)
        if let Some(i) = tpl[pos..].find("//@expect") {
            let sp = pos + i;
            let first_other = ["{@body", "//@item", "//@sig"].iter().filter_map(|k| tpl[pos..].find(k).map(|j| pos + j)).min();
            if first_other.map_or(true, |o| sp < o) {
                let eol = tpl[sp..].find('\n').map_or(tpl.len(), |i| sp + i);
                let line = tpl[sp + "//@expect".len()..eol].trim();
                let (rel, q) = line.split_once("::").ok_or_else(|| Bail(format!("{name}: bad @expect `{line}`")))?;
                let (want, _) = parse_quoted(q)?;
                let src = ctx.load(rel.trim())?;
                let squash = |s: &str| s.split_whitespace().collect::<Vec<_>>().join(" ");
                if !squash(&src.text).contains(&squash(&want)) {
                    return bail(format!("lost anchor: {} no longer contains `{want}`", rel.trim()));
                }
                ctx.record.push(json!({"kind":"expect","file":rel.trim(),"text":want,"template":name}));
                out.push_str(&tpl[pos..eol]);
                pos = eol;
                continue;
            }
        }
        // `//@sig` lines: signature-only check for bodiless trait methods (text is left in place)
        let nb = tpl[pos..].find("{@body").map(|i| pos + i);
        let ns = tpl[pos..].find("//@sig").map(|i| pos + i);
        if let Some(sp) = ns {
            let before_other = nb.map_or(true, |b| sp < b) && tpl[pos..].find("//@item").map_or(true, |i| sp < pos + i);
            if before_other {
                let eol = tpl[sp..].find('\n').map_or(tpl.len(), |i| sp + i);
                let header_full = tpl[sp + "//@sig".len()..eol].trim();
                // optional ` | subst A=B C=D`
                let (header, sig_subst): (&str, Vec<(String, String)>) = match header_full.split_once('|') {
                    Some((h, rest)) => (
                        h.trim(),
                        rest.trim().strip_prefix("subst").unwrap_or("").split_whitespace()
                            .filter_map(|kv| kv.split_once('=').map(|(k, v)| (k.to_string(), v.to_string()))).collect(),
                    ),
                    None => (header_full, Vec::new()),
                };
                let parts: Vec<&str> = header.split("::").map(str::trim).collect();
                if parts.len() < 3 {
                    return bail(format!("{name}: bad @sig `{header}`"));
                }
                let rel = parts[0];
                let fname = parts[parts.len() - 1];
                let container = parts[1..parts.len() - 1].join("::");
                let src = ctx.load(rel)?;
                let f = find_fn(&src.ast, &container, fname)?;
                let mut fired = Vec::new();
                let real = check_sig(name, tpl, sp, fname, &f, &sig_subst, false, &mut fired, rel, &container)?;
                let spn = f.span();
                ctx.record.push(json!({"kind":"sig","file":rel,"container":container,"fn":fname,
                    "lines":[spn.start().line, spn.end().line],"signature":real,"template":name}));
                out.push_str(&tpl[pos..eol]);
                pos = eol;
                continue;
            }
        }
        let ni = tpl[pos..].find("//@item").map(|i| pos + i);
        let next = match (nb, ni) {
            (None, None) => break,
            (Some(a), None) => (a, true),
            (None, Some(b)) => (b, false),
            (Some(a), Some(b)) => {
                if a < b {
                    (a, true)
                } else {
                    (b, false)
                }
            }
        };
        out.push_str(&tpl[pos..next.0]);
        if next.1 {
            let end = tpl[next.0..].find("@}").map(|i| next.0 + i).ok_or_else(|| Bail(format!("{name}: unterminated @body")))?;
            let inner = &tpl[next.0 + "{@body".len()..end];
            let mut lines = inner.lines();
            let header = lines.next().unwrap_or("").trim();
            let dir_lines: Vec<&str> = lines.collect();
            let body = fill_hole(ctx, name, tpl, next.0, header, &dir_lines)?;
            // every extracted function gets its own prover bucket (parallelism; no semantic effect)
            if std::env::var("VX_NO_SPINOFF").is_err() {
                let fname = header.rsplit("::").next().unwrap_or("").trim();
                let needle = format!("fn {fname}");
                if let Some(i) = out.rfind(&needle) {
                    // back up over `pub ` / `pub(crate) ` qualifiers on the same line
                    let line_start = out[..i].rfind('\n').map_or(0, |j| j + 1);
                    let prefix_ok = out[line_start..i].trim().is_empty() || out[line_start..i].trim() == "pub";
                    if prefix_ok {
                        out.insert_str(line_start, "#[verifier::spinoff_prover]\n");
                    }
                }
            }
            out.push_str(&body);
            pos = end + 2;
        } else {
            let eol = tpl[next.0..].find('\n').map_or(tpl.len(), |i| next.0 + i);
            let line = tpl[next.0 + "//@item".len()..eol].trim();
            let parts: Vec<&str> = line.split("::").map(str::trim).collect();
            if parts.len() != 2 {
                return bail(format!("{name}: bad @item `{line}`"));
            }
            let mut w = parts[1].split_whitespace();
            let kind = w.next().unwrap_or("");
            let iname = w.next().unwrap_or("");
            let opts: String = w.collect::<Vec<_>>().join(" ");
            let text = extract_item(ctx, parts[0], kind, iname, &opts)?;
            out.push_str(&text);
            pos = eol;
        }
    }
    out.push_str(&tpl[pos..]);
    Ok(out)
}

fn main() {
    let args: Vec<String> = std::env::args().collect();
    let mut repo = PathBuf::from("/repo");
    let mut expanded = PathBuf::from("build/expanded");
    let mut out = PathBuf::from("build/all.rs");
    let mut rec = PathBuf::from("build/extraction.json");
    let mut templates: Vec<PathBuf> = Vec::new();
    let mut i = 1;
    while i < args.len() {
        match args[i].as_str() {
            "--repo" => {
                repo = PathBuf::from(&args[i + 1]);
                i += 1;
            }
            "--expanded" => {
                expanded = PathBuf::from(&args[i + 1]);
                i += 1;
            }
            "-o" => {
                out = PathBuf::from(&args[i + 1]);
                i += 1;
            }
            "--record" => {
                rec = PathBuf::from(&args[i + 1]);
                i += 1;
            }
            t => templates.push(PathBuf::from(t)),
        }
        i += 1;
    }
    let mut ctx = Ctx { repo, expanded, files: BTreeMap::new(), record: Vec::new(), splits: String::new() };
    let mut all = String::new();
    for t in &templates {
        let tpl = match std::fs::read_to_string(t) {
            Ok(s) => s,
            Err(e) => {
                eprintln!("vx: cannot read template {}: {e}", t.display());
                std::process::exit(2);
            }
        };
        let name = t.file_name().map(|s| s.to_string_lossy().to_string()).unwrap_or_default();
        match process_template(&mut ctx, &name, &tpl) {
            Ok(s) => {
                let _ = writeln!(all, "// ===== template {name} =====");
                all.push_str(&s);
                all.push('\n');
            }
            Err(Bail(m)) => {
                eprintln!("vx: UNDECIDED in template {name}: {m}");
                std::process::exit(2);
            }
        }
    }
    if let Some(p) = out.parent() {
        let _ = std::fs::create_dir_all(p);
    }
    std::fs::write(&out, all).expect("write output");
    std::fs::write(&rec, serde_json::to_string_pretty(&Value::Array(ctx.record)).unwrap()).expect("write record");
}
