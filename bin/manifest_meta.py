SETUP = "cd /verif/vx && CARGO_NET_OFFLINE=true cargo build --offline --release"
HOOKS = {
    "guard": "unhindered_ec_verif",
    "enable": "RUSTFLAGS='--cfg unhindered_ec_verif' (no hook commits exist yet: Verus works on text extracted from /repo, Kani harnesses use the public API)",
    "baseline_off_cmd": "cd /repo && cargo nextest run --workspace --no-fail-fast --offline || cargo test --workspace --no-fail-fast --offline",
    "source_commits": [],
    "add_only": True,
}
ENGINES = [
    {"name": "verus", "path": "bin/check", "serves_properties": ["C04"],
     "kind_free_text": "contract templates (specs/*.vrs) whose holes are filled with the real items/function bodies of /repo by the vx extractor on every run; Verus 0.2026.09.13 (Z3) discharges every obligation"},
]
NOTES = ("Technique family: contract-based deductive verification of the real code. exit 2 = undecided (lost anchor, unsupported construct, "
         "resource limit, dependency contract failed) and is never accompanied by a VIOLATION line.")
CLAIMS = {
    "C04": {
        "category": "proof",
        "engine": "verus",
        "technique": "Verus function contracts on the mechanically extracted real bodies of Stack<T> (unbounded, generic T)",
        "text": "Every Stack<T> method named by the property carries a total functional contract (result and complete post-state as a function of "
                "the pre-state, for success and for each error, with the Underflow/Overflow payload); Verus proves each real body against it for all "
                "element types, lengths and capacities. History quantification follows because the contracts are functional.",
        "note": "Trusted: vstd's Vec model, std::any::type_name. push_many / try_extend (iterator adapters + Vec::extend, no vstd spec) are not yet under contract.",
        "design_ref": "DESIGN.md §4 L0, §6 C04",
    },
}
NOT_APPLICABLE = {
    "C09": "generation step: rayon worker threads and the thread-local OS-seeded rand::rng() inside par_next/serial_next are outside both installed verifiers (Kani: no threads/getrandom; Verus: no model); the remaining repository code is one collect::<Result<_,_>>() expression whose all-or-nothing behaviour is std's contract (DESIGN.md §7)",
}
