SETUP = ("cd /verif/vx && CARGO_NET_OFFLINE=true cargo build --offline --release && cd /verif/extern && "
         "RUSTUP_TOOLCHAIN=1.98.1-x86_64-unknown-linux-gnu CARGO_NET_OFFLINE=true cargo build --offline --release")
HOOKS = {
    "guard": "unhindered_ec_verif",
    "enable": "RUSTFLAGS='--cfg unhindered_ec_verif' (set by bin/check for the Kani harness crate, the replay binary and the C19 snippet crate; the Verus layer works on text extracted from /repo and needs no hook)",
    "baseline_off_cmd": "cd /repo && cargo nextest run --workspace --no-fail-fast --offline || cargo test --workspace --no-fail-fast --offline",
    "source_commits": ["f83a4027d1bb1b2a38a47152584fc235cf9b1ad7"],
    "add_only": True,
}
ENGINES = [
    {"name": "kani", "path": "bin/check", "serves_properties": ["C01", "C02", "C03", "C04", "C05", "C06", "C07", "C10", "C11", "C12", "C13", "C14", "C15", "C16", "C17", "C18", "C19"],
     "kind_free_text": "Kani 0.68 / CBMC 6.11 harness crate (kani/src) built against /repo's crates on every run; bounded stand-in and counterexample generator; replay binary kh-replay re-runs a counterexample on the stable toolchain"},
    {"name": "verus", "path": "bin/check", "serves_properties": ["C01", "C02", "C03", "C04", "C05", "C06", "C07", "C08", "C10", "C11", "C12", "C13", "C14", "C15", "C16", "C17", "C18", "C19"],
     "kind_free_text": "contract templates (specs/*.vrs) whose holes are filled with the real items/function bodies of /repo by the vx extractor on every run; Verus 0.2026.09.13 (Z3) discharges every obligation"},
]
NOTES = ("Technique family: contract-based deductive verification of the real code. exit 2 = undecided (lost anchor, unsupported construct, "
         "resource limit, dependency contract failed) and is never accompanied by a VIOLATION line.")
CLAIMS = {
    "C04": {
        "category": "proof",
        "engine": "verus",
        "technique": "Verus function contracts on the mechanically extracted real bodies of Stack<T> (unbounded, generic T)",
        "text": "Every Stack<T> method named by the property — including bulk insertion from an exact-size iterator (push_many) and from a plain one (try_extend) — carries a total functional contract (result and complete post-state as a function of "
                "the pre-state, for success and for each error, with the Underflow/Overflow payload); Verus proves each real body against it for all "
                "element types, lengths and capacities. History quantification follows because the contracts are functional.",
        "note": "Trusted: vstd's Vec model, std::any::type_name, and the std iterator / slice calls inside push_many and try_extend (ExactSizeIterator::len, Vec::extend(iter.rev()), Vec::extend(iter.take(n)), Iterator::next().is_some(), Vec::capacity / shrink_to, v[i..].reverse(), Option::is_none_or), each a stand-in whose body is that call; the bodies of push_many (at I := Vec<T>) and try_extend (at T := vec::IntoIter<A>) themselves are proved.",
        "design_ref": "DESIGN.md §4 L0, §6 C04",
    },
}
PUSH_NOTE = ("Trusted (listed in every evidence file): vstd's std model; std contracts in specs/05_std.vrs and 00_prelude.vrs; write!/writeln! stand-ins; "
             "derived Clone of PushProgram; float/int `as` casts; OrderedFloat operators as uninterpreted functions; external_body contracts for "
             "PushState::with_input (HashMap lookup), Vec<PushProgram>::perform (block unfolding through push_many/Vec::extend) and the PrintChar aliases.")
CLAIMS.update({
    "C01": {
        "category": "proof", "engine": "verus",
        "technique": "Verus contracts: every instruction's perform() == total spec function on the abstract state; per-variant obligation split",
        "text": "For each instruction under contract the postcondition is absres(result) == sem(instruction, view(state)) where sem is a total spec function "
                "written from the property text (top-op-second, /0 => 1, %0 => 0, overflow skips, saturating negate/abs, mathematical predicates that "
                "consume all operands, ...). Verus proves the real bodies for all operand values, stack depths and capacities.",
        "note": PUSH_NOTE, "design_ref": "DESIGN.md §4 L1/L2, §6 C01",
    },
    "C02": {
        "category": "proof", "engine": "verus",
        "technique": "Verus contracts: failure clause of every L1/L2 contract (carried state view-identical; Recoverable vs Fatal); TryRecover contract",
        "text": "Every helper (with_push, with_replace, push_onto, replace_on, with_stack_push, with_stack_discard, not_full, map_err_into, try_recover) and every "
                "instruction under contract proves: on Err the carried state equals the input state on every component of the abstract view, and the "
                "error is Recoverable for missing operands / arithmetic faults and Fatal(Overflow) for a full destination stack.",
        "note": PUSH_NOTE, "design_ref": "DESIGN.md §4 L1/L2, §6 C02",
    },
    "C03": {
        "category": "proof", "engine": "verus",
        "technique": "Verus contracts: wf invariant (len <= max) preserved by every outcome; Fatal only for Overflow; Verus' built-in panic-freedom/termination obligations",
        "text": "Each instruction outcome keeps every stack within its maximum (out_wf), fatal errors are StackError::Overflow only, every loop has a decreases "
                "clause, every unreachable!() is proved unreachable and no arithmetic/index obligation fails on the extracted bodies.",
        "note": PUSH_NOTE, "design_ref": "DESIGN.md §4 L2/L3, §6 C03",
    },
})
CLAIMS["C05"] = {
    "category": "proof", "engine": "verus",
    "technique": "Verus: real recursive parser proved equal to a reference recursive-descent spec (with termination) + inductive lemmas (flatten == instructions, shape)",
    "text": "For every gene sequence (any length / nesting) the real PushProgram::parse_from_plushy and From<Plushy> for Vec<PushProgram> terminate without "
            "panic and produce exactly parse_seq(true, genes); lemmas prove that its depth-first reading is the genome's instruction sequence in order, that "
            "each instruction opening k blocks is immediately followed by exactly k blocks, that Close ends the innermost block / is ignored at top level, and "
            "that open blocks are closed at the end.",
    "note": "Trusted: vstd's model of vec::IntoIter plus one axiom (exhausted iterator has measure 0) used only for the decreases argument. The generic "
            "`impl Iterator<Item = PushGene>` parameter is instantiated at std::vec::IntoIter<PushGene> (what From<Plushy> passes). Fallback for rewritten parsers (the extractor "
            "then answers UNDECIDED; CBMC cannot carry PushProgram): the compiled conversion is executed natively on EVERY genome of length 0..=6 (thorough 0..=8) over all seven gene "
            "kinds and compared with an independent recursive descent — an exhaustive enumeration by execution, no verifier involved, listed under `bounded`, never counted as discharged.",
    "design_ref": "DESIGN.md §4 parser, §6 C05, §12.4b",
}
KANI_NOTE = ("Bounded: CBMC explores every execution of the real compiled crates (including rand 0.9) within the stated collection-size bound, for all "
             "element values and all random streams (each word handed to rand is an unconstrained symbolic value; after the stated number of symbolic "
             "words the stream continues with all-ones). Not a proof for larger sizes. Uniformity of rand's words / its sampling algorithms is assumed.")
CLAIMS["C08"] = {
    "category": "proof", "engine": "verus",
    "technique": "Verus: the real Lexicase::select body (extracted, instantiated at Vec<EcIndividual<G, TestResults<Res>>>) proved against a declarative filtering spec with two nested loop invariants",
    "text": "For every population, every result matrix (ties, duplicates, ragged rows), every configured case count and every stream state: with pi the shuffled case order, the real "
            "select() returns an individual pop[i] with i in lex_run(pop, pi) — the candidates left after filtering case by case in the order pi, keeping at each case exactly those with "
            "a best result on it under the result type's order (so Error<T>'s reversed order makes lower errors better), stopping when one candidate is left — or EmptyPopulation for an "
            "empty population, or MissingTestCase{configured count, case} when a considered case has no result for a remaining candidate. Termination and absence of panics are "
            "Verus' own obligations on the extracted body.",
    "note": "Assumed, not decided: that shuffle draws every permutation with equal probability and that the final shuffle + first is a uniform pick among the survivors — i.e. the probability "
            "sentence of C08 rests on rand's contract; what is proved is that the only randomness is those two shuffles and that everything between them is the deterministic filter. "
            "Trusted: vx_shuffle stand-in (permutation, function of the stream state), Option::copied, vstd's Vec / slice / for-loop models. Precondition: the result type's order is a "
            "lawful total order. 'That very element' (pointer identity) is Kani's C06 harnesses; here the result is value-equal to population[i]. The Pareto consequence is machine-checked as lemma_never_dominated over lex_run (when every individual has every considered case).",
    "design_ref": "DESIGN.md §6 C08, §12",
}
KANI_TECH = "bounded stand-in: Kani/CBMC harnesses on the real compiled crates, symbolic random stream, cover! witnesses for 'can occur' clauses, counterexamples replayed on the stable toolchain"
def kclaim(text, note=KANI_NOTE, ref="DESIGN.md §5, §6, §12", tech=KANI_TECH, cat="model_checking"):
    return {"category": cat, "engine": "kani", "technique": tech, "text": text + " Kani harnesses that are not loop-free/full-domain are labelled bounded and not counted as proved.", "note": note, "design_ref": ref}

CLAIMS["C10"] = kclaim(
    "For genomes up to length 3 (quick) / 5 (thorough), for all gene values and all random streams: TwoPointXo and UniformXo on Vec<T> (array and tuple forms) and on "
    "Bitstring give a child of the parents' length whose gene at each position comes from one parent at that position; two-point takes one contiguous segment from the "
    "second parent and every segment [i,j) (including both ends, the whole genome and the empty one) is reachable; uniform decides every position with its own random word "
    "and every origin pattern is reachable; different lengths give DifferentGenomeLength(a,b); Bitstring::crossover_gene/segment return Err (no panic) exactly when the "
    "index/range leaves either genome and otherwise swap exactly the addressed genes. No panic is reachable.")
CLAIMS["C06"] = kclaim(
    "For populations of 0..=3 (thorough 5) individuals with arbitrary i64 fitness (ties, duplicates, all-equal included) and all random streams: Best, Worst, Random, "
    "Tournament (every size 1..=N+1), Lexicase (empty population, missing case result, single individual, 2 individuals x 1 case), Weighted, WeightedPair, DynWeighted, "
    "Box<dyn DynSelector> and &S return Ok(r) with ptr::eq(r, &population[i]) for some i, or exactly the documented error under exactly the documented condition; no panic or "
    "unreachable!() is reachable.",
    note=KANI_NOTE + " Lexicase beyond one considered case is outside CBMC's reach (out of memory at 2 cases, DESIGN §6 C08).")
CLAIMS["C07"] = kclaim(
    "Verus (any individual type with a lawful total order, every population, every tournament size): the real select() bodies of Best / Worst / Random / Tournament at Vec<I> are "
    "proved to return a maximal / minimal member, the member at the drawn position, resp. the best of the k pairwise distinct members the stream draws (TournamentSizeError(k, n) exactly "
    "when n < k; Best / Worst leave the stream untouched); lemmas derive that the winner is at least as good as k-1 OTHER members, that k = n gives a maximal member and that k = 1 returns "
    "the one drawn member. Std's Iterator::max / min and rand's choose / choose_multiple are trusted stand-ins (their bodies are those calls). "
    "Kani on the compiled code with the real rand sampler: Best/Worst return a maximal/minimal individual (population <= 3, thorough 5; all i64 values). Tournament, for every random stream: the winner is at least as good as "
    "k-1 OTHER members (refutes sampling with replacement and min-for-max), k = population size gives a maximal individual, k = 1 reaches every individual, and with distinct "
    "values the second-worst individual can win a binary tournament.",
    note=KANI_NOTE + " NOT decided: that every k-subset is equally likely (the exact law C(r-1,k-1)/C(n,k)) — that is rand's choose_multiple contract, assumed; what is "
         "checked is that the real select() passes the whole slice and k to the real choose_multiple and takes the max of what it yields.")
CLAIMS["C11"] = kclaim(
    "WithRate / WithOneOverLength on Vec<T: Not> (position-tagged genes) and Bitstring, lengths <= 3 (thorough 5), all rates in [0,2], all random streams: same length, every "
    "gene stays in place and is unchanged or negated, rate 0 = identity, rate >= 1 flips all, genes flip independently (both single-flip patterns reachable), "
    "WithOneOverLength == WithRate(1/len) on the same stream. Umad: output = surviving parent genes in order with at most one generator-drawn gene after each position; "
    "empty parent gives <= 1 gene (0 with new_without_empty; empty rate respected); rates 0 = identity, deletion 1 = empty, (add 1, del 0) = each gene followed by exactly one new.",
    note=KANI_NOTE + " Umad::mutate is instantiated at a harness-side array-backed Linear genome and parent length 1 (thorough 2): std's FlatMap/Flatten make CBMC need "
         "~400k symbolic-execution steps per gene; Vector<T>/Plushy's FromIterator/IntoIterator are one-line delegations to Vec and are not exercised by that harness. "
         "Rates for Umad come from {0,.25,.5,.875,1}.")
CLAIMS["C12"] = kclaim(
    "Preimage characterisation on a constant stream (every draw sees the same word w, so the result does not depend on draw order): WithRate flips a gene iff "
    "uniform_f32(w) < rate, for all words and all rates; Umad keeps a gene iff Bernoulli(deletion_rate) rejects w and inserts iff Bernoulli(addition_rate) accepts and "
    "Bernoulli(deletion_rate) rejects (new genes subject to deletion); WithOneOverLength applies exactly 1/len; UniformXo uses one fair word per position; BoolGenerator / "
    "random_with_probability set a bit iff w < p*2^64; GeneGenerator yields Close iff uniform_f32(w) < close_probability and otherwise exactly one draw from the instruction "
    "distribution, default close probability 1/(n+1). The measure of each accepted word set is the configured probability.",
    note=KANI_NOTE + " Full-domain in the random word; f64 probabilities come from {0,.25,.5,.875,1} (a symbolic f64 makes CBMC bit-blast rand's p*2^64). The expected-size "
         "identity del = add/(1+add) is arithmetic over these characterisations and is not machine-checked.")
CLAIMS["C13"] = kclaim(
    "Verus (generic members, all u32): the real WeightedPair::new, Weighted::new, weight() and the two non-Result with_weighted_item impls reject exactly the totals that do not "
    "fit in 32 bits (WeightSumOverflow(a,b)), expose the exact sum, and build the coin a/(a+b) (absent exactly for total 0); a lemma spells out the two ratios of a nested chain. "
    "Kani, complete (loop-free, all u32): WeightedPair::new and with_item_and_weight chaining return WeightSumOverflow(a,b) exactly when the total does not fit in 32 bits — also when "
    "the overflow happened earlier in a Result chain — and otherwise expose the exact sum. For all random words and representative weights: a pair delegates to exactly one member, "
    "member a exactly on the words below wa/(wa+wb)*2^64 (checked against exact integer arithmetic up to f64 rounding), zero-weight members are never used, all-zero gives ZeroWeight; "
    "left- and right-nested triples decide with outer coin (sum of the nested pair)/total and inner coin w_i/(pair sum), so member i is used on a word set of measure w_i/sum. "
    "DynWeighted (3 members): exactly one member is used, never a zero-weight one, all-zero gives ZeroWeightSum.",
    note=KANI_NOTE + " Proportionality of DynWeighted is rand's choose_weighted contract (assumed). Weights for the threshold harnesses come from "
         "{0,1,2,3,1000,2^31,u32::MAX-1,u32::MAX}.")
CLAIMS["C14"] = kclaim(
    "Verus (arbitrary parts, hence any nesting depth): every operator is specified as a function op(input, stream state) -> (result, stream state); the real apply() bodies of Then, "
    "And, Map over a pair, Identity, Constant, Mutate, Recombine, Select, GenomeExtractor, GenomeScorer and the by-reference Mutator / Recombinator / Selector impls are proved equal to compositional spec functions written from the "
    "property (first result fed to the second; same input to both; elements in order; the first failure stops the pipeline with the stream where the failing part left it; the error "
    "identifies part / element index). Kani: probe operators log (id, input seen, word drawn) and fail on command. For all inputs, all random words and every failure position: Then feeds the first result to the second, "
    "And gives both the same input, Map maps pair/array/Vec elements in order, RepeatWith applies N times to copies — each part draws the next word of the stream, the first failure "
    "stops the pipeline (log length and stream position equal the number of parts run), the error identifies the part/element (observed through Display and Error::source, the "
    "error types being private), Identity/Constant/Mutate/Recombine/GenomeScorer (by value and by reference) add nothing. A composition nested two deep in every position follows "
    "the left-to-right schedule.",
    note=KANI_NOTE + " 'Nested to any depth' is argued from parametricity of each combinator in its parts; depth 2 is what is machine-checked. Vec length <= 3, N in {2,3}.")
CLAIMS["C15"] = kclaim(
    "Verus (generic payload T): the real hand-written and derived (taken from the macro expansion) eq / cmp / partial_cmp bodies of Score, Error, TestResult, TestResults and "
    "EcIndividual are proved against spec functions over T's own order: scores ascending, errors reversed, TestResult None exactly across kinds, collections and individuals exactly "
    "as their totals / test results; lemmas: lawfulness (reflexive, antisymmetric, transitive, partial_cmp == Some(cmp)) is inherited from T, and Error orders opposite to Score; GenomeScorer::apply (arbitrary genome maker and scorer) returns exactly the maker's genome paired with the "
    "scorer's result for that genome. "
    "Kani, complete for i64 payloads (loop-free, all values): the compiled cmp / partial_cmp / == / < <= > >= of Score (derived), Error (hand-written reverse), TestResult (None exactly "
    "across kinds), TestResults and EcIndividual (exactly as their totals / test results) — ascending for scores, descending for errors, operators mutually consistent. "
    "IndividualGenerator::sample and GenomeScorer::apply carry exactly the genome produced and the scorer's answer for that genome. TestResults::from / from_iter: results kept in "
    "order, total == sum (0, 1 results quick; 3, 5 thorough).",
    note=KANI_NOTE + " Lawfulness (transitivity etc.) for a generic payload T follows from T's own total order; checked here at T = i64.")
CLAIMS["C16"] = kclaim(
    "Self-composition: Tournament, Random, WeightedPair, Lexicase, TwoPointXo, UniformXo, WithRate (Vec and Bitstring), Bitstring::random*, OneOfCloning, collection generator, "
    "IndividualGenerator (thorough: Umad) are each run twice from the same symbolic stream: equal results and equal generator positions; a second call on the same operator value "
    "repeats the first (no hidden state). Any foreign entropy source (getrandom, clock) reachable from these operations is reported as a failed obligation. Push evaluation being a "
    "function of program, inputs and limits is the Verus theorem of C01 (run_to_completion == run_spec(view)).",
    note=KANI_NOTE + " Covers the operations listed, not 'all operators in the three crates'.")
CLAIMS["C17"] = kclaim(
    "For each of the five erasable traits (DynSelector, DynMutator, DynRecombinator, DynOperator, DynChildMaker) and each of the 7 pointer kinds (&, &mut, Box, Rc, Arc, cell::Ref, "
    "cell::RefMut) x 4 auto-trait sets (-, Send, Sync, Send+Sync) generated by dyn_ref_impls — 28 flavours per trait, all instantiated — a probe with symbolic behaviour (draws 0..=2 "
    "words, fails on command) gives through the erased form the same element / value, the same error and the same stream position as the concrete call; with the default erased "
    "error type the same error is recovered by downcast.",
    note=KANI_NOTE + " Universal over wrapped implementations only by parametricity of the forwarding code.")
CLAIMS["C18"] = kclaim(
    "Verus (any member type, any length): the real OneOfCloning::new (at T := Vec<U>) rejects exactly the empty collection and otherwise establishes the representation invariant tying its three "
    "copies of the member count together (Uniform range = 0..len, NonZeroUsize count = len); from that invariant the real sample returns a clone of the member at the drawn in-range position — "
    "the unwrap() in its body is proved unreachable-to-fail — and num_choices reports the number of members; likewise ChooseCloning::new / num_choices / sample over rand's Choose. "
    "Kani (bounded): collection::Generator (owning and borrowing) yields exactly `size` elements, element i being the i-th draw (sizes 0..=3, thorough 6); Bitstring::random*, Plushy and population "
    "generators have exactly the configured size. OneOfCloning, ChooseCloning, Choose through all IntoDistribution / ToDistribution flavours for Vec, arrays and slices and "
    "uniform_distribution_of!: empty source => Err(EmptySlice) at construction, num_choices == len, every sample is a member (borrowing forms: pointer-equal to a member), first and "
    "last member reachable.",
    note=KANI_NOTE + " Equal probability of members is rand's Uniform<usize> / Choose contract (assumed).")
# checks that exist but are not yet validated on the unchanged tree are not claimed
PENDING = set()
NOT_APPLICABLE = {
    "C08_old": "Kani cannot carry Lexicase::select beyond ONE considered case (out of memory at two), which decides nothing about filtering by randomly ORDERED cases; the Verus proof sketched in DESIGN.md §6 (loop invariants over the candidate set, shuffle as an assumed permutation contract) has not been completed. What is checked about lexicase (membership, errors, single-case filtering, tie reachability) is claimed under C06 only (DESIGN.md §13).",
    "C11": "check being validated in this session (Kani harnesses exist: kani/src/c11.rs)",
    "C12": "check being validated in this session (Kani harnesses exist: kani/src/c11.rs, c18.rs)",
    "C18": "check being validated in this session (Kani harnesses exist: kani/src/c18.rs)",
    "C19": "check being validated in this session (compile-time snippets + Kani harnesses on the real builder exist: snippets/c19, kani/src/c19.rs)",
    "C09": "generation step: rayon worker threads and the thread-local OS-seeded rand::rng() inside par_next/serial_next are outside both installed verifiers (Kani: no threads/getrandom; Verus: no model); the remaining repository code is one collect::<Result<_,_>>() expression whose all-or-nothing behaviour is std's contract (DESIGN.md §7)",
}

VK_TECH = "Verus contracts on the mechanically extracted real bodies (generic, unbounded) + Kani/CBMC harnesses on the compiled crates (complete where loop-free and full-domain, otherwise bounded stand-ins)"
for _p in ("C07", "C13", "C14", "C15", "C18"):
    CLAIMS[_p]["technique"] = VK_TECH
    CLAIMS[_p]["engine"] = "verus"
CLAIMS["C11"]["text"] = ("Verus (unbounded, the `Linear` impls only): Plushy::size counts every gene, close markers included; Vector::size / Bitstring::size are the number of genes; gene_mut addresses "
    "exactly the gene at its position. Kani (the mutators themselves): " + CLAIMS["C11"]["text"])
CLAIMS["C11"]["technique"] = "bounded stand-in: Kani/CBMC harnesses on the compiled crates (symbolic random stream, cover! witnesses) + Verus contracts on the real Linear impls the mutators measure genomes with"
CLAIMS["C17"]["text"] = ("Verus (any wrapped implementation): the five blanket impls `impl<T: X> DynX for T` — dyn_select, dyn_mutate, dyn_recombine, dyn_apply, dyn_make_child — return the wrapped "
    "call's value, its error converted by Into, and leave the random stream in the wrapped call's final state. Kani (the macro-generated impls for the pointer flavours, which Verus cannot take: "
    "unsizing to &mut dyn RngCore): " + CLAIMS["C17"]["text"])
CLAIMS["C17"]["technique"] = "Verus contracts on the real blanket Dyn* impls (generic in the wrapped implementation) + bounded Kani harnesses on the compiled generated pointer impls (symbolic probe implementation)"
CLAIMS["C12"]["technique"] = "bounded stand-in: Kani/CBMC harnesses on the compiled crates (thresholds on a constant stream, all random words) + a Verus contract on the real UniformXo loop (one coin per position, unbounded)"
CLAIMS["C05"]["technique"] += "; fallback for rewritten parsers: exhaustive enumeration of all genomes up to length 6 (thorough 8) executed natively against a reference (bounded, no verifier)"
for _p in ("C01", "C02", "C03"):
    CLAIMS[_p]["technique"] += "; bounded Kani pairing harnesses on a lean state as fallback / counterexample generator (DESIGN §12.3)"
    CLAIMS[_p]["note"] += " The Kani pairing harnesses (kani/src/c01.rs) are bounded (depths, representative operands for * / % pow) and listed under `bounded`, never counted as discharged."

CLAIMS["C19"] = {
    "category": "proof", "engine": "verus",
    "technique": "Verus contracts on the macro-generated builder (bodies taken from the macro expansion of the real crate) + rustc's trait solver on must-fail / must-compile snippets for the type-state preconditions + Kani on the real compiled builder",
    "text": "Run-time part (Verus, all values / sizes / call orders the type-state permits, from any partial state): with_max_stack_size sets every stack's maximum and nothing else; "
            "with_<stack>_max_size sets exactly that stack's; with_<stack>_values / with_program put the supplied values on the named stack with the FIRST supplied on top (first "
            "program element executes first) or report Overflow when they do not fit; with_<stack>_input inserts name -> literal into the input map (a lemma shows declaration order "
            "is irrelevant for distinct names); with_instruction_step_limit sets the limit; build returns exactly the assembled state. Compile-time part: sixteen illegal call sequences on PushState and five on the second state type "
            "(build without sizes / program decision / step limit; values or program before sizes; resizing after values or after the program decision — directly, globally, and with any other builder call in between; no other call supplying the step limit or the program decision) are each rejected with E0599 on "
            "the expected method, and the legal orders type-check. Kani: the compiled builder on the real PushState (sizes for all usize, value loading, generated accessors address "
            "the field of their element type).",
    "note": "Trusted: the std iterator stand-ins inside push_many (ExactSizeIterator::len, Vec::extend(iter.rev()), Option::is_none_or; push_many's own body is proved, 10_stack.vrs), "
            "HashMap::insert as a map keyed by name equality, VariableName::from / PushInstruction::push_* as uninterpreted constructors; value / program parameters instantiated at Vec<_>. "
            "'All state structs': besides PushState a second macro-generated state type (AltState, compiled under the hook cfg unhindered_ec_verif inside the push crate because E0119 makes "
            "#[push_state] unusable outside it: bool / int stacks renamed in the builder, other field order, exec field named differently) is checked by five further snippets and three Kani "
            "harnesses; the Verus contracts cover PushState's builder only. Not covered: PushState::builder()'s Default state.",
    "design_ref": "DESIGN.md §6 C19, §13",
}

CLAIMS["C16"]["text"] = ("Verus (unbounded): Weighted / WeightedPair::select, Then / And / Map / Identity / Constant / Mutate / Recombine::apply, Lexicase / Best / Worst / Random / Tournament::select and "
    "PushState::run_to_completion are each proved EQUAL TO A SPEC FUNCTION of their arguments and the abstract stream state (resp. of the abstract machine state: program, inputs as a map "
    "keyed by name, limits) — a function with such a contract cannot depend on thread-local or global randomness, hash-map order or time, and two runs from equal states agree on result "
    "and final generator state. Kani (bounded): " + CLAIMS["C16"]["text"])
CLAIMS["C16"]["technique"] = VK_TECH + "; self-composition harnesses with an entropy guard"
CLAIMS["C10"]["text"] = ("Verus (all lengths / indices / ranges / stream states): Bitstring::crossover_gene and crossover_segment are proved against the Crossover contract (Err and nothing "
    "changed exactly when the index / range leaves either genome, otherwise exactly the addressed genes swapped). From that contract alone, TwoPointXo over ANY Crossover genome returns the first "
    "parent with one contiguous segment [min, max) of two draws from 0..=len taken from the second parent at the same positions, and UniformXo (loop invariant on the real loop) takes position i "
    "from the second parent exactly when the i-th coin shows heads; TwoPointXo over Vec<T> is proved directly. Parents of different lengths give DifferentGenomeLength(a, b) with the stream "
    "untouched. The non-empty-range precondition of random_range and the slice bounds are proved, so these bodies cannot panic. Kani (UniformXo over Vec<T>, tuple forms, real rand): " + CLAIMS["C10"]["text"])
CLAIMS["C10"]["engine"] = "verus"
CLAIMS["C12"]["text"] = ("Verus (unbounded): UniformXo over any Crossover genome decides position i by the i-th draw of Rng::random::<bool>() alone (one coin per position; its fairness is rand's contract). "
    "Kani: " + CLAIMS["C12"]["text"])
CLAIMS["C10"]["technique"] = VK_TECH
CLAIMS["C06"]["text"] = ("Verus (unbounded): Weighted::select / WeightedPair::select return a member's selection, or exactly ZeroWeight, or the member's error wrapped to identify the member; "
    "Lexicase::select returns population[i] for a surviving i or exactly EmptyPopulation / MissingTestCase. Kani: " + CLAIMS["C06"]["text"])
CLAIMS["C06"]["technique"] = VK_TECH
