SETUP = ("cd /verif/vx && CARGO_NET_OFFLINE=true cargo build --offline --release && cd /verif/extern && "
         "RUSTUP_TOOLCHAIN=1.98.1-x86_64-unknown-linux-gnu CARGO_NET_OFFLINE=true cargo build --offline --release")
HOOKS = {
    "guard": "unhindered_ec_verif",
    "enable": "RUSTFLAGS='--cfg unhindered_ec_verif' (no hook commits exist yet: Verus works on text extracted from /repo, Kani harnesses use the public API)",
    "baseline_off_cmd": "cd /repo && cargo nextest run --workspace --no-fail-fast --offline || cargo test --workspace --no-fail-fast --offline",
    "source_commits": [],
    "add_only": True,
}
ENGINES = [
    {"name": "kani", "path": "bin/check", "serves_properties": ["C10"],
     "kind_free_text": "Kani 0.68 / CBMC 6.11 harness crate (kani/src) built against /repo's crates on every run; bounded stand-in and counterexample generator; replay binary kh-replay re-runs a counterexample on the stable toolchain"},
    {"name": "verus", "path": "bin/check", "serves_properties": ["C01", "C02", "C03", "C04", "C05"],
     "kind_free_text": "contract templates (specs/*.vrs) whose holes are filled with the real items/function bodies of /repo by the vx extractor on every run; Verus 0.2026.09.13 (Z3) discharges every obligation"},
]
NOTES = ("Technique family: contract-based deductive verification of the real code. exit 2 = undecided (lost anchor, unsupported construct, "
         "resource limit, dependency contract failed) and is never accompanied by a VIOLATION line.")
CLAIMS = {
    "C04": {
        "category": "proof",
        "engine": "verus",
        "technique": "Verus function contracts on the mechanically extracted real bodies of Stack<T> (unbounded, generic T)",
        "text": "Every Stack<T> method named by the property carries a total functional contract (result and complete post-state as a function of "
                "the pre-state, for success and for each error, with the Underflow/Overflow payload); Verus proves each real body against it for all "
                "element types, lengths and capacities. History quantification follows because the contracts are functional.",
        "note": "Trusted: vstd's Vec model, std::any::type_name. push_many / try_extend (iterator adapters + Vec::extend, no vstd spec) are not yet under contract.",
        "design_ref": "DESIGN.md §4 L0, §6 C04",
    },
}
PUSH_NOTE = ("Trusted (listed in every evidence file): vstd's std model; std contracts in specs/05_std.vrs and 00_prelude.vrs; write!/writeln! stand-ins; "
             "derived Clone of PushProgram; float/int `as` casts; OrderedFloat operators as uninterpreted functions; external_body contracts for "
             "PushState::with_input (HashMap lookup), Vec<PushProgram>::perform (block unfolding through push_many/Vec::extend) and the PrintChar aliases.")
CLAIMS.update({
    "C01": {
        "category": "proof", "engine": "verus",
        "technique": "Verus contracts: every instruction's perform() == total spec function on the abstract state; per-variant obligation split",
        "text": "For each instruction under contract the postcondition is absres(result) == sem(instruction, view(state)) where sem is a total spec function "
                "written from the property text (top-op-second, /0 => 1, %0 => 0, overflow skips, saturating negate/abs, mathematical predicates that "
                "consume all operands, ...). Verus proves the real bodies for all operand values, stack depths and capacities.",
        "note": PUSH_NOTE, "design_ref": "DESIGN.md §4 L1/L2, §6 C01",
    },
    "C02": {
        "category": "proof", "engine": "verus",
        "technique": "Verus contracts: failure clause of every L1/L2 contract (carried state view-identical; Recoverable vs Fatal); TryRecover contract",
        "text": "Every helper (with_push, with_replace, push_onto, replace_on, with_stack_push, with_stack_discard, not_full, map_err_into, try_recover) and every "
                "instruction under contract proves: on Err the carried state equals the input state on every component of the abstract view, and the "
                "error is Recoverable for missing operands / arithmetic faults and Fatal(Overflow) for a full destination stack.",
        "note": PUSH_NOTE, "design_ref": "DESIGN.md §4 L1/L2, §6 C02",
    },
    "C03": {
        "category": "proof", "engine": "verus",
        "technique": "Verus contracts: wf invariant (len <= max) preserved by every outcome; Fatal only for Overflow; Verus' built-in panic-freedom/termination obligations",
        "text": "Each instruction outcome keeps every stack within its maximum (out_wf), fatal errors are StackError::Overflow only, every loop has a decreases "
                "clause, every unreachable!() is proved unreachable and no arithmetic/index obligation fails on the extracted bodies.",
        "note": PUSH_NOTE, "design_ref": "DESIGN.md §4 L2/L3, §6 C03",
    },
})
CLAIMS["C05"] = {
    "category": "proof", "engine": "verus",
    "technique": "Verus: real recursive parser proved equal to a reference recursive-descent spec (with termination) + inductive lemmas (flatten == instructions, shape)",
    "text": "For every gene sequence (any length / nesting) the real PushProgram::parse_from_plushy and From<Plushy> for Vec<PushProgram> terminate without "
            "panic and produce exactly parse_seq(true, genes); lemmas prove that its depth-first reading is the genome's instruction sequence in order, that "
            "each instruction opening k blocks is immediately followed by exactly k blocks, that Close ends the innermost block / is ignored at top level, and "
            "that open blocks are closed at the end.",
    "note": "Trusted: vstd's model of vec::IntoIter plus one axiom (exhausted iterator has measure 0) used only for the decreases argument. The generic "
            "`impl Iterator<Item = PushGene>` parameter is instantiated at std::vec::IntoIter<PushGene> (what From<Plushy> passes).",
    "design_ref": "DESIGN.md §4 parser, §6 C05",
}
KANI_NOTE = ("Bounded: CBMC explores every execution of the real compiled crates (including rand 0.9) within the stated collection-size bound, for all "
             "element values and all random streams (each word handed to rand is an unconstrained symbolic value; after the stated number of symbolic "
             "words the stream continues with all-ones). Not a proof for larger sizes. Uniformity of rand's words / its sampling algorithms is assumed.")
CLAIMS["C10"] = {
    "category": "model_checking", "engine": "kani",
    "technique": "bounded stand-in: Kani/CBMC harnesses on the real compiled crates with a symbolic random stream, cover! witnesses for every 'can occur' clause, counterexamples replayed on the stable toolchain",
    "text": "For genomes up to length 3 (quick) / 5 (thorough), for all gene values and all random streams: TwoPointXo and UniformXo on Vec<T> (array and tuple forms) and on "
            "Bitstring give a child of the parents' length whose gene at each position comes from one parent at that position; two-point takes one contiguous segment from the "
            "second parent and every segment [i,j) (including both ends, the whole genome and the empty one) is reachable; uniform decides every position with its own random word "
            "and every origin pattern is reachable; different lengths give DifferentGenomeLength(a,b); Bitstring::crossover_gene/segment return Err (no panic) exactly when the "
            "index/range leaves either genome and otherwise swap exactly the addressed genes. No panic is reachable. Labelled bounded; not counted as proved.",
    "note": KANI_NOTE, "design_ref": "DESIGN.md §5, §6 C10",
}
NOT_APPLICABLE = {
    "C09": "generation step: rayon worker threads and the thread-local OS-seeded rand::rng() inside par_next/serial_next are outside both installed verifiers (Kani: no threads/getrandom; Verus: no model); the remaining repository code is one collect::<Result<_,_>>() expression whose all-or-nothing behaviour is std's contract (DESIGN.md §7)",
}
