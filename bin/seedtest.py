#!/usr/bin/env python3
"""Confirms sub-agent mutants and runs the checks against them (development aid; never touches /repo).
usage: seedtest.py <out_dir> <PROP> [--no-confirm] [--props C01,C02]
For every <out_dir>/m*/ : copy to /verif/seeded/<PROP>-m<i>/, apply patch.diff to a scratch worktree, confirm
 (a) cargo test --workspace passes, (b) demo fails with the patch, (c) demo passes without it; then run bin/check."""
import json, os, subprocess, sys, shutil, re, glob, time
WT = os.environ.get("SEED_WT", "/tmp/mt_seed")
def sh(c, **k): return subprocess.run(c, shell=True, text=True, capture_output=True, **k)
def main():
    out, prop = sys.argv[1], sys.argv[2]
    confirm = "--no-confirm" not in sys.argv
    props = [prop]
    if "--props" in sys.argv:
        props = sys.argv[sys.argv.index("--props") + 1].split(",")
    only = sys.argv[sys.argv.index("--only") + 1].split(",") if "--only" in sys.argv else None
    field = sys.argv[sys.argv.index("--field") + 1] if "--field" in sys.argv else "verif_checks"
    if not os.path.exists(WT):
        r = sh(f"git -C /repo worktree add --detach {WT} HEAD"); assert r.returncode == 0, r.stderr
    head = sh("git -C /repo rev-parse HEAD").stdout.strip()
    for md in sorted(glob.glob(os.path.join(out, "m*"))):
        name = "%s-%s" % (prop, os.path.basename(md))
        if only and os.path.basename(md) not in only: continue
        dst = os.path.join("/verif/seeded", name)
        os.makedirs(dst, exist_ok=True)
        for f in ("patch.diff", "demo.rs", "meta.json"):
            if os.path.exists(os.path.join(md, f)) and os.path.abspath(md) != os.path.abspath(dst): shutil.copy(os.path.join(md, f), dst)
        sh(f"git -C {WT} checkout -q --detach {head} && git -C {WT} checkout -- . && git -C {WT} clean -fdq -e target")
        demo = open(os.path.join(dst, "demo.rs")).read()
        m = re.search(r"place at:\s*(\S+)", demo)
        place = m.group(1) if m else None
        rec = {"name": name, "confirmed": None, "checks": {}}
        r = sh(f"git -C {WT} apply {dst}/patch.diff")
        if r.returncode != 0:
            print("SKIP", name, "patch does not apply:", r.stderr[:200]); continue
        if confirm and place:
            pkg = place.split("/")[1]
            pkgname = {"ec-core": "ec-core", "ec-linear": "ec-linear", "push": "push", "push-macros": "push_macros", "ec-macros": "ec_macros"}.get(pkg, pkg)
            tname = os.path.basename(place)[:-3]
            t = sh(f"cd {WT} && cargo test --workspace --offline 2>&1 | grep -E '^test result|FAILED|error(\\[|:)' | sort | uniq -c | head")
            suite_ok = "FAILED" not in t.stdout and "error" not in t.stdout and "ok." in t.stdout
            os.makedirs(os.path.dirname(os.path.join(WT, place)), exist_ok=True)
            open(os.path.join(WT, place), "w").write(demo)
            d1 = sh(f"cd {WT} && cargo test -p {pkgname} --test {tname} --offline 2>&1 | tail -5")
            fails_with = "FAILED" in d1.stdout or "panicked" in d1.stdout or "error: test failed" in d1.stdout
            sh(f"git -C {WT} apply -R {dst}/patch.diff")
            d2 = sh(f"cd {WT} && cargo test -p {pkgname} --test {tname} --offline 2>&1 | tail -5")
            passes_without = "test result: ok" in d2.stdout
            os.remove(os.path.join(WT, place))
            sh(f"git -C {WT} apply {dst}/patch.diff")
            rec["confirmed"] = {"suite_passes_with_patch": suite_ok, "demo_fails_with_patch": fails_with, "demo_passes_without": passes_without}
        for p in props:
            t0 = time.time()
            r = sh(f"VERIF_REPO={WT} /verif/bin/check {p}")
            tag = "VIOLATION" if "VIOLATION" in r.stdout else ("UNDECIDED" if r.returncode == 2 else ("OK" if r.returncode == 0 else "rc%d" % r.returncode))
            lines = [l[:260] for l in r.stdout.split("\n") if l.startswith(("VIOLATION", "UNDECIDED"))][:4]
            rec["checks"][p] = {"result": tag, "seconds": round(time.time() - t0, 1), "lines": lines}
        meta = {}
        try: meta = json.load(open(os.path.join(dst, "meta.json")))
        except Exception: pass
        if rec["confirmed"] is not None or "verif_confirmation" not in meta:
            meta["verif_confirmation"] = rec["confirmed"]
        meta[field] = rec["checks"]
        meta["ran_by_verif"] = ["git apply patch.diff in a scratch worktree", "cargo test --workspace --offline", "demo with / without the patch", "VERIF_REPO=<worktree> bin/check " + ",".join(props)]
        json.dump(meta, open(os.path.join(dst, "meta.json"), "w"), indent=1)
        print(name, rec["confirmed"], {p: c["result"] for p, c in rec["checks"].items()}, flush=True)
        for p, c in rec["checks"].items():
            for l in c["lines"][:2]: print("    ", l[:200], flush=True)
    sh(f"git -C {WT} checkout -- . && git -C {WT} clean -fdq -e target")
main()
