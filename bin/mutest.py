#!/usr/bin/env python3
"""Scratch-copy mutation runner (development aid): applies small source mutations to a scratch worktree of /repo and
runs the named checks against it.  usage: mutest.py <mutfile.json> [name-filter]"""
import json, os, subprocess, sys, shutil
WT = "/tmp/mt_wt"
def sh(c, **k): return subprocess.run(c, shell=True, text=True, capture_output=True, **k)
def main():
    muts = json.load(open(sys.argv[1]))
    flt = sys.argv[2] if len(sys.argv) > 2 else ""
    if not os.path.exists(WT):
        r = sh(f"git -C /repo worktree add --detach {WT} HEAD")
        assert r.returncode == 0, r.stderr
    res = []
    for m in muts:
        if flt and flt not in m["name"]:
            continue
        sh(f"git -C {WT} checkout -q --detach $(git -C /repo rev-parse HEAD) && git -C {WT} checkout -- .")
        p = os.path.join(WT, m["file"])
        s = open(p).read()
        if s.count(m["old"]) != 1:
            print("SKIP", m["name"], "anchor count", s.count(m["old"])); continue
        open(p, "w").write(s.replace(m["old"], m["new"]))
        out = []
        for prop in m["props"]:
            r = sh(f"VERIF_REPO={WT} /verif/bin/check {prop}")
            tag = "VIOLATION" if "VIOLATION" in r.stdout else ("UNDECIDED" if r.returncode == 2 else "OK")
            out.append(f"{prop}:{tag}")
            if m.get("show"): print(r.stdout[-1500:])
        exp = m.get("expect", "VIOLATION")
        ok = all(o.endswith(exp) for o in out[:1])
        print(("PASS " if ok else "MISS ") + m["name"], " ".join(out), flush=True)
        res.append((m["name"], out))
    sh(f"git -C {WT} checkout -- .")
main()
