#!/usr/bin/env python3
"""Regenerates MANIFEST.json from bin/props.py + bin/manifest_meta.py (keeps it valid at all times)."""
import json, os, sys
ROOT = os.path.dirname(os.path.dirname(os.path.abspath(__file__)))
sys.path.insert(0, os.path.join(ROOT, "bin"))
import props, manifest_meta as mm
ids = [json.loads(l)["id"] for l in open(os.path.join(ROOT, "properties.jsonl"))]
checks, na = [], []
for pid in ids:
    if pid in props.PROPS and pid in mm.CLAIMS and pid not in getattr(mm, 'PENDING', ()):
        c = mm.CLAIMS[pid]
        checks.append({
            "property_id": pid,
            "quick_cmd": "bin/check %s --tier quick" % pid,
            "thorough_cmd": "bin/check %s --tier thorough" % pid,
            "evidence_file": "evidence/%s.json" % pid,
            "replay_cmd_template": "bin/check %s --replay {path}" % pid,
            "engine": c.get("engine", "verus"),
            "level_claimed": {"category": props.PROPS[pid].get("level", c["category"]), "text": c["text"], "design_ref": c.get("design_ref", "DESIGN.md §6")},
            "level_note": c["note"],
            "technique": c["technique"],
        })
    else:
        na.append({"property_id": pid, "reason": mm.NOT_APPLICABLE.get(pid, "check not built yet in this session (work in progress; see DESIGN.md §11)")})
m = {
    "version": 1,
    "setup_cmd": mm.SETUP,
    "hooks": mm.HOOKS,
    "engines": mm.ENGINES,
    "checks": checks,
    "notes": mm.NOTES,
    "not_applicable": na,
}
json.dump(m, open(os.path.join(ROOT, "MANIFEST.json"), "w"), indent=1)
print("claimed:", [c["property_id"] for c in checks], "not_applicable:", [n["property_id"] for n in na])
