#!/usr/bin/env python3
"""Rewrites specs/ALLOW.txt from the trusted declarations found in build/<ID>/all.rs files (run by hand after
adding a trusted declaration; the result is reviewed and committed)."""
import sys, os, glob, re
ROOT = os.path.dirname(os.path.dirname(os.path.abspath(__file__)))
sys.path.insert(0, os.path.join(ROOT, "bin"))
import vlib
items = set()
ap = os.path.join(ROOT, "specs", "ALLOW.txt")
for f in glob.glob(os.path.join(ROOT, "build", "*", "all.rs")):
    r = vlib.Run(ROOT, "X", "quick")
    open(ap, "w").write("")
    try:
        r.scan_assumptions(f)
    except vlib.Undecided as e:
        for l in str(e).split("\n")[1:]:
            if l.strip():
                items.add(l.strip())
open(ap, "w").write("# Every trusted declaration that may appear in an assembled Verus file (reviewed by hand).\n"
                    "# bin/check refuses to run (exit 2) if its scan finds one that is not listed here.\n" + "\n".join(sorted(items)) + "\n")
print(len(items), "entries")
