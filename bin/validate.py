#!/usr/bin/env python3
"""validates MANIFEST.json and every evidence file against the schemas (run with python3-vt, which has jsonschema)"""
import json, glob, sys, jsonschema
ok = True
try:
    jsonschema.validate(json.load(open('/verif/MANIFEST.json')), json.load(open('/root/.vp/MANIFEST.schema.json')))
    print("MANIFEST ok")
except Exception as e:
    ok = False; print("MANIFEST INVALID", str(e)[:400])
es = json.load(open('/root/.vp/EVIDENCE.schema.json'))
for f in sorted(glob.glob('/verif/evidence/*.json')):
    try:
        jsonschema.validate(json.load(open(f)), es); print(f, "ok")
    except Exception as e:
        ok = False; print(f, "INVALID", str(e)[:300])
sys.exit(0 if ok else 1)
