#!/usr/bin/env python3
"""development aid: run Kani harnesses in a scratch crate dir and print a per-harness table.
usage: kprobe.py [--dir D] [--timeout S] harness..."""
import sys, os, subprocess, time
sys.path.insert(0, os.path.dirname(os.path.abspath(__file__)))
import vlib
a = sys.argv[1:]
d = "/tmp/khtest"; to = 900
if a and a[0] == "--dir": d = a[1]; a = a[2:]
if a and a[0] == "--timeout": to = int(a[1]); a = a[2:]
open(os.path.join(d, 'Cargo.toml'), 'w').write(open('/verif/kani/Cargo.toml.in').read().replace('@REPO@', os.environ.get('VERIF_REPO', '/repo')))
args = ["--lib", "--exact", "-Z", "stubbing"] + sum([["--harness", h] for h in a], []) + ["-j", str(min(16, len(a))), "--output-format", "terse"]
t0 = time.time()
rc, so, se, w = vlib.kani_cmd(args, d, to)
res = vlib.parse_terse(so)
for h in a:
    r = res.get(h)
    print(h, "NO RESULT (timeout/oom?)" if not r or not r["status"] else "%s checks=%s covers=%s t=%.1fs %s" % (r["status"], r["checks"], r["covers"], r["time"], r["fail_desc"][:3]))
print("wall %.0fs rc=%d" % (time.time() - t0, rc))
errs = [l for l in se.split("\n") if l.startswith("error")]
if errs: print("\n".join(errs[:10]))
