#!/usr/bin/env python3
"""prints a Markdown table summarising evidence/*.json (pasted into DESIGN.md §15 by hand after a full run)"""
import json, glob, os
root = os.path.dirname(os.path.dirname(os.path.abspath(__file__)))
print("| property | level | tier | real functions under contract | obligations discharged (Verus / rustc) | Kani harnesses (complete / bounded) | trusted declarations | wall s |")
print("|---|---|---|---|---|---|---|---|")
for f in sorted(glob.glob(os.path.join(root, "evidence", "C*.json"))):
    d = json.load(open(f)); c = d["coverage"]
    ob = c.get("obligation_list", [])
    by = {}
    for o in ob:
        by[o["backend"]] = by.get(o["backend"], 0) + (1 if o["ok"] else 0)
    bounded = c.get("bounded", [])
    ncomplete = sum(1 for o in ob if o["backend"].startswith("kani"))
    print("| %s | %s | %s | %d | %s | %d / %d | %d | %.0f |" % (
        d["property_id"], d["level"] if isinstance(d["level"], str) else d["level"].get("category", ""), d["tier"], len(c.get("functions_under_contract", [])),
        ", ".join("%s %d" % (k, v) for k, v in sorted(by.items()) if not k.startswith("kani")) or "-",
        ncomplete, len(bounded), len(c.get("trusted_base", [])), d.get("wall_s", 0)))
