#!/usr/bin/env python3
"""prints the Markdown table of the answers recorded in seeded/*/meta.json (field given as argv[1], default verif_checks_final)"""
import json, glob, os, sys
field = sys.argv[1] if len(sys.argv) > 1 else "verif_checks_final"
rows, tally = [], {}
for d in sorted(glob.glob("/verif/seeded/*")):
    m = json.load(open(d + "/meta.json"))
    v = m.get(field)
    src = field
    if not v:
        for f in ("verif_checks_followup", "verif_checks"):
            if m.get(f):
                v, src = m[f], f
                break
    if not v:
        continue
    for p, r in v.items():
        how = ""
        if r["lines"]:
            l = r["lines"][0]
            if "obligation=" in l:
                how = l.split("obligation=")[1][:90]
            elif "UNDECIDED" in l:
                how = l.split(":", 1)[1].strip()[:90]
        rows.append((os.path.basename(d), p, r["result"], how.replace("|", "/"), "" if src == field else "(" + src + ")"))
        tally[r["result"]] = tally.get(r["result"], 0) + 1
print("| change | checked under | answer | first failing obligation / reason | |")
print("|---|---|---|---|---|")
for r in rows:
    print("| %s | %s | %s | %s | %s |" % r)
print()
print("totals:", ", ".join("%s %d" % kv for kv in sorted(tally.items())))
