"""Per-property configuration of the checks (see DESIGN.md §6)."""
from vlib import run_verus_property

PRELUDE = ["00_prelude.vrs"]
STACK = ["10_stack.vrs"]
MAIN = ["99_main.vrs"]

PROPS = {
    "C04": {
        "templates": PRELUDE + STACK + MAIN,
        "steps": [run_verus_property],
        "level": "proof",
        "explanation": "Total functional contracts on the real bodies of Stack<T>::{set_max_stack_size,max_stack_size,size,is_empty,"
                       "is_full,top,top2,top3,pop,pop2,pop3,discard,push} (generic T, unbounded length, every capacity); the history "
                       "quantifier reduces to the per-call contracts because each contract determines the post-state completely.",
        "assumptions": ["Vec<T> behaves as vstd specifies (last/get/pop/push/len)",
                        "std::any::type_name returns some &'static str"],
    },
}
