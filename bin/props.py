"""Per-property configuration of the checks (see DESIGN.md §6)."""
from vlib import run_verus_property, run_kani_property

PRELUDE = ["00_prelude.vrs"]
STACK = ["10_stack.vrs"]
MAIN = ["99_main.vrs"]

STD = ["05_std.vrs"]
PUSH_L1 = ["20_plumbing.vrs", "30_state.vrs", "40_common.vrs", "45_sem.vrs", "48_print.vrs"]
PUSH_L2 = ["50_int.vrs", "52_bool.vrs", "54_exec.vrs", "56_float.vrs", "60_interp.vrs"]
PUSH = PRELUDE + STD + STACK + PUSH_L1 + PUSH_L2 + MAIN

PUSH_ASSUME = [
    "Vec<T> / Option / Result behave as vstd specifies",
    "write!/writeln! on the in-memory Cursor<Vec<u8>> append exactly the Display bytes and never fail (vx_write_display / vx_writeln_display stand-ins)",
    "derived Clone of PushProgram returns a structurally equal value",
    "float <-> int `as` casts are the saturating conversions of the Rust reference (vx_f64_as_i64 stand-in)",
    "std contracts listed in coverage.trusted_base (Result::and_then/or_else/cloned/unwrap_or, i64::saturating_neg/abs/checked_pow, From<T> for T, i64: From<bool>)",
]

PROPS = {
    "C01": {
        "templates": PUSH, "expand": True, "extern": True, "steps": [run_verus_property], "level": "proof",
        "explanation": "post of every instruction = total spec function on the abstract state (SV), written from the property text; Verus proves the "
                       "real perform() bodies (extracted from /repo on this run) against it for all values, depths and capacities; per-variant "
                       "obligation split localises a failing instruction.",
        "assumptions": PUSH_ASSUME,
    },
    "C02": {
        "templates": PUSH, "expand": True, "extern": True, "steps": [run_verus_property], "level": "proof",
        "explanation": "the failure clause of every L1/L2 contract: on Err the carried state is view-identical to the input state (all stacks, "
                       "capacities, output, inputs, step limit), Recoverable vs Fatal as prescribed; TryRecover maps Recoverable to the carried state.",
        "assumptions": PUSH_ASSUME,
    },
    "C03": {
        "templates": PUSH, "expand": True, "extern": True, "steps": [run_verus_property], "level": "proof",
        "explanation": "wf (every stack within its maximum) is preserved by every instruction outcome, fatal errors are only StackError::Overflow, "
                       "and Verus' own obligations (no arithmetic overflow, no out-of-bounds index, unreachable!() proved unreachable, termination "
                       "of every loop) hold on the extracted bodies.",
        "assumptions": PUSH_ASSUME,
    },
    "C05": {
        "templates": PRELUDE + STD + STACK + PUSH_L1 + PUSH_L2 + ["70_parser.vrs"] + MAIN, "expand": True, "extern": True,
        "steps": [run_verus_property], "level": "proof",
        "explanation": "parse_from_plushy (instantiated at vec::IntoIter<PushGene>) is proved equal to an independent recursive-descent reference "
                       "parser (parse_seq/parse_blocks) with termination; lemmas over the reference parser prove the declarative reading: depth-first "
                       "flattening == the genome's instruction sequence, every instruction opening k blocks is followed by exactly k well-shaped blocks, "
                       "nothing is left over at top level; NumOpens impls are under contract (only DupBlock/When/Unless = 1, IfElse = 2).",
        "assumptions": ["vstd's prophetic model of std::vec::IntoIter (remaining/next)",
                        "axiom_exhausted_into_iter_measure: an exhausted vec::IntoIter has termination measure 0"],
    },
    "C10": {
        "steps": [run_kani_property], "level": "model_checking",
        "kani": [
            {"name": "c10::p_c10_two_point_vec", "bound": "genome length <= 3; all random streams (4 symbolic words)", "what": "TwoPointXo on [Vec<T>;2], tagged genes"},
            {"name": "c10::p_c10_two_point_vec_tuple", "bound": "genome length <= 3; all random streams (4 symbolic words)", "what": "TwoPointXo on (Vec<T>,Vec<T>)"},
            {"name": "c10::p_c10_uniform_vec", "bound": "genome length <= 3; all random streams (4 symbolic words)", "what": "UniformXo on [Vec<T>;2]"},
            {"name": "c10::p_c10_two_point_bitstring", "bound": "genome length <= 3; all random streams (4 symbolic words)", "what": "TwoPointXo on [Bitstring;2] via Crossover"},
            {"name": "c10::p_c10_uniform_bitstring", "bound": "genome length <= 3; all random streams (4 symbolic words)", "what": "UniformXo on (Bitstring,Bitstring) via Crossover"},
            {"name": "c10::p_c10_bitstring_gene", "bound": "genome lengths <= 3 (equal or different), all bit values, index 0..=5", "what": "Bitstring::crossover_gene"},
            {"name": "c10::p_c10_bitstring_segment", "bound": "genome lengths <= 3 (equal or different), all bit values, ranges start<=end<=5", "what": "Bitstring::crossover_segment"},
            {"name": "c10::p_c10_two_point_vec_n5", "tier": "thorough", "bound": "genome length <= 5; all random streams (4 symbolic words)", "what": "TwoPointXo on [Vec<T>;2], tagged genes"},
            {"name": "c10::p_c10_uniform_vec_n5", "tier": "thorough", "bound": "genome length <= 5; all random streams (6 symbolic words)", "what": "UniformXo on [Vec<T>;2]"},
            {"name": "c10::p_c10_two_point_bitstring_n5", "tier": "thorough", "bound": "genome length <= 5; all random streams (4 symbolic words)", "what": "TwoPointXo on [Bitstring;2]"},
            {"name": "c10::p_c10_uniform_bitstring_n5", "tier": "thorough", "bound": "genome length <= 5; all random streams (6 symbolic words)", "what": "UniformXo on (Bitstring,Bitstring)"},
            {"name": "c10::p_c10_bitstring_gene_n5", "tier": "thorough", "bound": "genome lengths <= 5, all bit values, index 0..=7", "what": "Bitstring::crossover_gene"},
            {"name": "c10::p_c10_bitstring_segment_n5", "tier": "thorough", "bound": "genome lengths <= 5, all bit values, ranges start<=end<=7", "what": "Bitstring::crossover_segment"},
        ],
        "explanation": "Kani/CBMC on the real compiled crates with a symbolic random stream (every word handed to rand is unconstrained).",
        "assumptions": ["rand 0.9 is executed, not modelled; uniformity of its words is assumed"],
    },
    "C04": {
        "templates": PRELUDE + STD + STACK + MAIN, "extern": True,
        "steps": [run_verus_property],
        "level": "proof",
        "explanation": "Total functional contracts on the real bodies of Stack<T>::{set_max_stack_size,max_stack_size,size,is_empty,"
                       "is_full,top,top2,top3,pop,pop2,pop3,discard,push} (generic T, unbounded length, every capacity); the history "
                       "quantifier reduces to the per-call contracts because each contract determines the post-state completely.",
        "assumptions": ["Vec<T> behaves as vstd specifies (last/get/pop/push/len)",
                        "std::any::type_name returns some &'static str"],
    },
}
