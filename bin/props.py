"""Per-property configuration of the checks (see DESIGN.md §6)."""
from vlib import run_native_enum, run_verus_property, run_verus_multi, run_kani_property, run_compile_snippets

PRELUDE = ["00_prelude.vrs"]
STACK = ["10_stack.vrs", "11_try_extend.vrs"]
MAIN = ["99_main.vrs"]

STD = ["05_std.vrs"]
PUSH_L1 = ["20_plumbing.vrs", "30_state.vrs", "40_common.vrs", "45_sem.vrs", "48_print.vrs"]
PUSH_L2 = ["50_int.vrs", "52_bool.vrs", "54_exec.vrs", "56_float.vrs", "60_interp.vrs"]
PUSH = PRELUDE + STD + STACK + PUSH_L1 + PUSH_L2 + MAIN

PUSH_ASSUME = [
    "Vec<T> / Option / Result behave as vstd specifies",
    "write!/writeln! on the in-memory Cursor<Vec<u8>> append exactly the Display bytes and never fail (vx_write_display / vx_writeln_display stand-ins)",
    "derived Clone of PushProgram returns a structurally equal value",
    "float <-> int `as` casts are the saturating conversions of the Rust reference (vx_f64_as_i64 stand-in)",
    "std contracts listed in coverage.trusted_base (Result::and_then/or_else/cloned/unwrap_or, i64::saturating_neg/abs/checked_pow, From<T> for T, i64: From<bool>)",
]

RNG = "all random streams (every word handed to rand is symbolic)"
def K(name, bound, what, tier="quick", complete=False, **kw):
    d = {"name": name, "bound": bound, "what": what, "tier": tier, "complete": complete}
    d.update(kw)
    return d

KANI = {
    "C10": [
        K("c10::p_c10_two_point_vec", "genome length <= 3; " + RNG, "TwoPointXo on [Vec<T>;2], tagged genes"),
        K("c10::p_c10_two_point_vec_tuple", "genome length <= 3; " + RNG, "TwoPointXo on (Vec<T>,Vec<T>)"),
        K("c10::p_c10_uniform_vec", "genome length <= 3; " + RNG, "UniformXo on [Vec<T>;2]"),
        K("c10::p_c10_two_point_bitstring", "genome length <= 3; " + RNG, "TwoPointXo on [Bitstring;2] via Crossover"),
        K("c10::p_c10_uniform_bitstring", "genome length <= 3; " + RNG, "UniformXo on (Bitstring,Bitstring) via Crossover"),
        K("c10::p_c10_bitstring_gene", "genome lengths <= 3 (equal or different), all bit values, index 0..=5", "Bitstring::crossover_gene"),
        K("c10::p_c10_bitstring_segment", "genome lengths <= 3 (equal or different), all bit values, ranges start<=end<=5", "Bitstring::crossover_segment"),
        K("c10::p_c10_two_point_vec_n5", "genome length <= 5; " + RNG, "TwoPointXo on [Vec<T>;2]", "thorough"),
        K("c10::p_c10_uniform_vec_n5", "genome length <= 5; " + RNG, "UniformXo on [Vec<T>;2]", "thorough"),
        K("c10::p_c10_two_point_bitstring_n5", "genome length <= 5; " + RNG, "TwoPointXo on [Bitstring;2]", "thorough"),
        K("c10::p_c10_uniform_bitstring_n5", "genome length <= 5; " + RNG, "UniformXo on (Bitstring,Bitstring)", "thorough"),
        K("c10::p_c10_bitstring_gene_n5", "genome lengths <= 5, all bit values, index 0..=7", "Bitstring::crossover_gene", "thorough"),
        K("c10::p_c10_bitstring_segment_n5", "genome lengths <= 5, all bit values, ranges start<=end<=7", "Bitstring::crossover_segment", "thorough"),
    ],
    "C11": [
        K("c11::p_c11_with_rate_vec", "genome length <= 3, all rates in [0,2], " + RNG, "WithRate on Vec<T: Not> with position-tagged genes"),
        K("c11::p_c11_with_rate_bitstring", "genome length <= 3, all rates in [0,2], " + RNG, "WithRate on Bitstring (Linear path)"),
        K("c11::p_c11_one_over_length_vec", "genome length <= 3, " + RNG, "WithOneOverLength == WithRate(1/len) on the same stream"),
        K("c11::p_c11_one_over_length_bitstring", "genome length <= 3, " + RNG, "WithOneOverLength on Bitstring"),
        K("c11::p_c11_umad_empty", "empty parent; rates from {0,.25,.5,.875,1}; " + RNG, "Umad::{new,new_with_empty_rate,new_without_empty} on an empty genome"),
        K("c11::p_c11_umad_vector", "parent length 1 (array-backed Linear genome); rates from {0,.25,.5,.875,1}; " + RNG, "Umad::mutate structure", "thorough"),
        K("c11::p_c12_umad_threshold", "all words (constant stream); rates from {0,.25,.5,.875,1}; parent length 1", "Umad::mutate on one gene: structure and coins"),
        K("c11::p_c11_linear_impls", "Plushy of two close markers; Vector / Bitstring of length <= 3", "Linear::size / gene_mut of Plushy, Vector, Bitstring"),
        K("c11::p_c11_with_rate_vec_n5", "genome length <= 5", "WithRate on Vec<T>", "thorough"),
        K("c11::p_c11_with_rate_bitstring_n5", "genome length <= 5", "WithRate on Bitstring", "thorough"),
    ],
    "C12": [
        K("c11::p_c12_with_rate_threshold", "all words, all rates in [0,2] (loop-free apart from the 2-gene genome)", "flip <=> uniform_f32(w) < rate (constant stream)"),
        K("c11::p_c12_umad_threshold", "all words; rates from {0,.25,.5,.875,1}; parent length 1", "UMAD coins are Bernoulli(addition_rate)/Bernoulli(deletion_rate), new genes subject to deletion"),
        K("c11::p_c11_one_over_length_vec", "genome length <= 3, " + RNG, "rate applied is exactly 1/length"),
        K("c11::p_c11_umad_empty", "empty parent; rates from {0,.25,.5,.875,1}; " + RNG, "Umad::{new,new_with_empty_rate,new_without_empty}: the configured empty-genome addition rate is the one applied (and is not confused with the deletion rate)"),
        K("c10::p_c10_uniform_vec", "genome length <= 3; " + RNG, "uniform crossover: one fair word per position, every origin pattern reachable"),
        K("c10::p_c10_uniform_bitstring", "genome length <= 3; " + RNG, "uniform crossover via Crossover (Bitstring): one fair word per position, every origin pattern reachable"),
        K("c18::p_c12_bool_generator", "all words; p from {0,.25,.5,.875,1}", "BoolGenerator / random_with_probability threshold p*2^64"),
        K("c18::p_c12_gene_generator", "all words, all close probabilities in [0,1]; n from {1,3,9}", "GeneGenerator: Close <=> uniform_f32(w) < close_probability; default 1/(n+1)"),
    ],
    "C06": [
        K("c06::p_c06_best_worst", "population size <= 3, all i64 fitness values", "Best / Worst"),
        K("c06::p_c06_random", "population size <= 3, " + RNG, "Random"),
        K("c06::p_c06_tournament_3_1", "population 3, tournament 1, " + RNG, "Tournament"),
        K("c06::p_c06_tournament_3_2", "population 3, tournament 2, " + RNG, "Tournament"),
        K("c06::p_c06_tournament_3_3", "population 3, tournament 3, " + RNG, "Tournament"),
        K("c06::p_c06_tournament_2_3", "population 2, tournament 3 (oversized)", "Tournament"),
        K("c06::p_c06_tournament_1_1", "population 1, tournament 1", "Tournament"),
        K("c06::p_c06_tournament_0_1", "empty population, tournament 1", "Tournament"),
        K("c06::p_c06_lexicase_empty", "empty population, 0..=2 cases", "Lexicase"),
        K("c06::p_c06_lexicase_missing", "2 individuals without results, 1 configured case", "Lexicase MissingTestCase"),
        K("c06::p_c06_lexicase_single", "1 individual, 0..=2 cases", "Lexicase"),
        K("c06::p_c06_lexicase_ragged", "2 individuals, the second without results, 1 configured case", "Lexicase MissingTestCase (ragged)"),
        K("c06::p_c06_lexicase_one_case", "2 individuals x 1 case (the most CBMC can carry), all i64 errors", "Lexicase"),
        K("c06::p_c06_weighted", "all u32 weights; member fails on command", "Weighted"),
        K("c06::p_c06_weighted_pair", "all u32 weights; members fail on command; " + RNG, "WeightedPair"),
        K("c06::p_c06_dyn_weighted", "3 members, weights from {0,1,2,3,2^32}; " + RNG, "DynWeighted"),
        K("c06::p_c06_erased_and_ref", "population size <= 2", "Box<dyn DynSelector>, &S"),
        K("c06::p_c06_best_worst_n5", "population size <= 5", "Best / Worst", "thorough"),
        K("c06::p_c06_random_n5", "population size <= 5", "Random", "thorough"),
        K("c06::p_c06_tournament_4_2", "population 4, tournament 2", "Tournament", "thorough"),
        K("c06::p_c06_tournament_4_3", "population 4, tournament 3", "Tournament", "thorough"),
        K("c06::p_c06_tournament_5_2", "population 5, tournament 2", "Tournament", "thorough"),
    ],
    "C07": [
        K("c06::p_c06_best_worst", "population size <= 3, all i64 fitness values", "Best maximal / Worst minimal"),
        K("c06::p_c06_tournament_3_1", "population 3, tournament 1, " + RNG, "size 1 = every individual reachable"),
        K("c06::p_c06_tournament_3_2", "population 3, tournament 2, " + RNG, "winner >= k-1 others"),
        K("c06::p_c06_tournament_ranks", "population 3 with distinct values, tournament 2, " + RNG, "second-worst can win, worst cannot"),
        K("c06::p_c06_tournament_3_3", "population 3, tournament 3, " + RNG, "whole population = best selection"),
        K("c06::p_c06_tournament_4_2", "population 4, tournament 2", "Tournament", "thorough"),
        K("c06::p_c06_tournament_4_3", "population 4, tournament 3", "Tournament", "thorough"),
        K("c06::p_c06_tournament_5_2", "population 5, tournament 2", "Tournament", "thorough"),
        K("c06::p_c06_best_worst_n5", "population size <= 5", "Best / Worst", "thorough"),
    ],
    "C13": [
        K("c13::p_c13_pair_build", "all u32 weights (loop-free, full domain)", "WeightedPair::new: overflow / weight sum", complete=True),
        K("c13::p_c13_chain_overflow", "all u32 weights (loop-free, full domain)", "with_item_and_weight chaining incl. Result: earlier overflow is the one reported", complete=True),
        K("c13::p_c13_pair_threshold", "all words; weights from {0,1,2,3,1000,2^31,u32::MAX-1,u32::MAX}", "member a <=> w < wa/(wa+wb)*2^64 (+-2^12 f64 rounding); zero weights never used; all-zero => ZeroWeight"),
        K("c13::p_c13_nested_left", "all word pairs; weights from the representative set", "((A,B),C): outer coin (wa+wb)/total, inner wa/(wa+wb)"),
        K("c13::p_c13_nested_right", "all word pairs; weights from the representative set", "(A,(B,C)): outer coin wa/total, inner wb/(wb+wc)"),
        K("c06::p_c06_weighted", "all u32 weights", "Weighted: weight 0 => ZeroWeight, no randomness consumed"),
        K("c06::p_c06_weighted_pair", "all u32 weights; members fail on command; " + RNG, "WeightedPair errors identify the member"),
        K("c06::p_c06_dyn_weighted", "3 members, weights from {0,1,2,3,2^32}; " + RNG, "DynWeighted: one member used, never a zero-weight one; all-zero => ZeroWeightSum"),
    ],
    "C14": [
        K("c14::p_c14_then", "all inputs / words / failure positions (loop-free)", "Then", complete=True),
        K("c14::p_c14_and", "all inputs / words / failure positions (loop-free)", "And", complete=True),
        K("c14::p_c14_map_pair_array", "all inputs / words / failing element (loop-free)", "Map over pair and array", complete=True),
        K("c14::p_c14_map_vec", "vector length <= 3", "Map over Vec"),
        K("c14::p_c14_repeat", "N = 3 and N = 2, failure at every call", "RepeatWith / apply_twice"),
        K("c14::p_c14_nested", "fixed shape two deep in every position, all failure patterns (loop-free)", "Then(And(Then,Then), Map)", complete=True),
        K("c14::p_c14_wrappers", "all inputs / words (loop-free)", "Identity, Constant, Mutate, Recombine by value and by reference", complete=True),
        K("c15::p_c15_scored_individuals", "all genomes / words (loop-free)", "GenomeScorer", complete=True),
    ],
    "C15": [
        K("c15::p_c15_orderings", "all i64 values (loop-free, full domain) — the COMPILED orderings incl. the derived ones", "Score/Error/TestResult/TestResults/EcIndividual cmp, partial_cmp, operators", complete=True),
        K("c15::p_c15_scored_individuals", "all genomes / words / scorers of the form 3g+k (loop-free)", "IndividualGenerator::sample, GenomeScorer::apply, EcIndividual::from", complete=True),
        K("c15::p_c15_test_results_from_0", "0 results", "TestResults::from / from_iter"),
        K("c15::p_c15_test_results_from_1", "1 result, |v| < 2^40", "TestResults::from / from_iter"),
        K("c15::p_c15_test_results_from", "3 results, |v| < 2^40", "TestResults::from / from_iter", "thorough"),
        K("c15::p_c15_test_results_from_n5", "5 results", "TestResults::from / from_iter", "thorough"),
    ],
    "C16": [
        K("c16::p_c16_selectors", "population 3; 6 symbolic words", "Tournament, Random run twice from equal generator states", entropy_guard=True),
        K("c16::p_c16_weighted", "population 2; 6 symbolic words", "WeightedPair run twice from equal generator states", entropy_guard=True),
        K("c16::p_c16_variation", "genome length 2-3; 6 symbolic words", "TwoPointXo, UniformXo, WithRate twice", entropy_guard=True),
        K("c16::p_c16_generators", "sizes 2-3; 6 symbolic words", "Bitstring::random*, OneOfCloning, collection generator, IndividualGenerator twice", entropy_guard=True),
        K("c16::p_c16_umad_empty", "empty parent, empty-addition rate 1", "Umad's empty-genome branch twice", entropy_guard=True),
    ],
    "C17": [
        K("c17::p_c17_selector", "population 2; probe draws through next_u32 / next_u64 / fill_bytes (0, 1 or 5 words), fails on command; 7 pointer kinds x 4 auto-trait sets", "DynSelector"),
        K("c17::p_c17_selector_empty", "empty population", "DynSelector: error, not panic"),
        K("c17::p_c17_mutator", "as above", "DynMutator"),
        K("c17::p_c17_recombinator", "as above", "DynRecombinator"),
        K("c17::p_c17_operator", "as above", "DynOperator"),
        K("c17::p_c17_child_maker", "as above", "DynChildMaker"),
        K("c17::p_c17_boxed_error", "default erased error type Box<dyn Error + Send + Sync>", "DynSelector / DynMutator", min_covers=0),
        K("c17::p_c17_zero_sized", "zero-sized genome / input type (); 7 pointer kinds x {no auto traits, Send + Sync}", "DynMutator / DynRecombinator / DynOperator on a zero-sized type"),
        K("c17::p_c17_repeated", "80 consecutive calls on one erased value, failing / succeeding by a symbolic pattern of period 3", "DynOperator / DynMutator / DynRecombinator: no state between calls"),
    ],
    "C18": [
        K("c18::p_c18_collection", "sizes 0..=3, " + RNG, "collection::Generator (owning and borrowing), population size"),
        K("c18::p_c18_bitstring_sizes", "size 3; p in {0,.5,1}", "Bitstring::random / random_with_probability"),
        K("c18::p_c18_bitstring_sizes_0", "size 0", "Bitstring::random / random_with_probability", min_covers=1),
        K("c18::p_c18_plushy_size", "size 2", "Plushy from collection::Generator<GeneGenerator>"),
        K("c18::p_c18_one_of_cloning", "collection length 0..=3, " + RNG, "OneOfCloning"),
        K("c18::p_c18_conversions_vec", "Vec length 0..=3", "IntoDistribution / ToDistribution for Vec (5 flavours)"),
        K("c18::p_c18_conversions_array_slice", "arrays of 3 and 0, slices 0..=3", "IntoDistribution / ToDistribution for arrays and slices (9 flavours), ChooseCloning::new"),
        K("c18::p_c18_macro", "3 members", "uniform_distribution_of!"),
        K("c18::p_c18_collection_n6", "sizes 0..=6", "collection::Generator", "thorough"),
        K("c18::p_c18_one_of_cloning_n5", "collection length 0..=5", "OneOfCloning", "thorough"),
    ],
    "C19": [
        K("c19::p_c19_sizes", "all usize sizes / step limits; 4 call orders (loop-free)", "with_max_stack_size / with_<stack>_max_size / with_instruction_step_limit on the real PushState builder", complete=True),
        K("c19::p_c19_values_int", "3 int values; maximum 0..=3", "with_int_values: first supplied on top, overflow; generated accessors"),
        K("c19::p_c19_values_bool_float", "2 bool, 1 float value; maximum 2", "with_bool_values / with_float_values; generated accessors"),
        K("c04::p_c04_bulk", "prior depth 0..=2, 0..=3 items, maximum depth-1..=depth+1; sizes that do not add up in a usize", "Stack::push_many (what with_<stack>_values / with_program load through)"),
        K("c19::p_c19_alt_sizes", "second state type AltState (hook; renamed builder stacks, other field order, exec field `work`): all usize sizes / step limits; 3 call orders (loop-free)", "with_max_stack_size / with_flags_max_size / with_counters_max_size; generated accessors address their fields (pointer equality)", complete=True),
        K("c19::p_c19_alt_values", "AltState: 3 int values through with_counters_values; maximum 0..=3", "with_<renamed>_values: first supplied on top, overflow"),
        K("c19::p_c19_alt_flags", "AltState: 2 bool values through with_flags_values; maximum 2", "with_<renamed>_values"),
    ],
    "PUSH": [
        K("c01::p_c01_int_add", "lean state (real Stack<T>s), one operand short and one spare beneath, maxima depth..=depth+1, all operand values", "int instruction add", "quick", panic_props=["C03"]),
        K("c01::p_c01_int_subtract", "lean state (real Stack<T>s), one operand short and one spare beneath, maxima depth..=depth+1, all operand values", "int instruction subtract", "quick", panic_props=["C03"]),
        K("c01::p_c01_int_multiply", "lean state (real Stack<T>s), one operand short and one spare beneath, maxima depth..=depth+1, all operand values (representative operands for * / % pow)", "int instruction multiply", "thorough", panic_props=["C03"]),
        K("c01::p_c01_int_divide", "lean state (real Stack<T>s), one operand short and one spare beneath, maxima depth..=depth+1, all operand values (representative operands for * / % pow)", "int instruction divide", "quick", panic_props=["C03"]),
        K("c01::p_c01_int_mod", "lean state (real Stack<T>s), one operand short and one spare beneath, maxima depth..=depth+1, all operand values (representative operands for * / % pow)", "int instruction mod", "quick", panic_props=["C03"]),
        K("c01::p_c01_int_power", "lean state (real Stack<T>s), one operand short and one spare beneath, maxima depth..=depth+1, all operand values (representative operands for * / % pow)", "int instruction power", "quick", panic_props=["C03"]),
        K("c01::p_c01_int_square", "lean state (real Stack<T>s), one operand short and one spare beneath, maxima depth..=depth+1, all operand values (representative operands for * / % pow)", "int instruction square", "thorough", panic_props=["C03"]),
        K("c01::p_c01_int_inc", "lean state (real Stack<T>s), one operand short and one spare beneath, maxima depth..=depth+1, all operand values", "int instruction inc", "thorough", panic_props=["C03"]),
        K("c01::p_c01_int_dec", "lean state (real Stack<T>s), one operand short and one spare beneath, maxima depth..=depth+1, all operand values", "int instruction dec", "thorough", panic_props=["C03"]),
        K("c01::p_c01_int_min", "lean state (real Stack<T>s), one operand short and one spare beneath, maxima depth..=depth+1, all operand values", "int instruction min", "thorough", panic_props=["C03"]),
        K("c01::p_c01_int_max", "lean state (real Stack<T>s), one operand short and one spare beneath, maxima depth..=depth+1, all operand values", "int instruction max", "thorough", panic_props=["C03"]),
        K("c01::p_c01_int_negate", "lean state (real Stack<T>s), one operand short and one spare beneath, maxima depth..=depth+1, all operand values", "int instruction negate", "quick", panic_props=["C03"]),
        K("c01::p_c01_int_abs", "lean state (real Stack<T>s), one operand short and one spare beneath, maxima depth..=depth+1, all operand values", "int instruction abs", "thorough", panic_props=["C03"]),
        K("c01::p_c01_int_clamp", "lean state (real Stack<T>s), one operand short and one spare beneath, maxima depth..=depth+1, all operand values", "int instruction clamp", "quick", panic_props=["C03"]),
        K("c01::p_c01_int_is_zero", "lean state (real Stack<T>s), one operand short and one spare beneath, maxima depth..=depth+1, all operand values", "int instruction is_zero", "thorough", panic_props=["C03"]),
        K("c01::p_c01_int_is_positive", "lean state (real Stack<T>s), one operand short and one spare beneath, maxima depth..=depth+1, all operand values", "int instruction is_positive", "thorough", panic_props=["C03"]),
        K("c01::p_c01_int_is_negative", "lean state (real Stack<T>s), one operand short and one spare beneath, maxima depth..=depth+1, all operand values", "int instruction is_negative", "thorough", panic_props=["C03"]),
        K("c01::p_c01_int_is_even", "lean state (real Stack<T>s), one operand short and one spare beneath, maxima depth..=depth+1, all operand values", "int instruction is_even", "thorough", panic_props=["C03"]),
        K("c01::p_c01_int_is_odd", "lean state (real Stack<T>s), one operand short and one spare beneath, maxima depth..=depth+1, all operand values", "int instruction is_odd", "quick", panic_props=["C03"]),
        K("c01::p_c01_int_equal", "lean state (real Stack<T>s), one operand short and one spare beneath, maxima depth..=depth+1, all operand values", "int instruction equal", "quick", panic_props=["C03"]),
        K("c01::p_c01_int_not_equal", "lean state (real Stack<T>s), one operand short and one spare beneath, maxima depth..=depth+1, all operand values", "int instruction not_equal", "thorough", panic_props=["C03"]),
        K("c01::p_c01_int_lt", "lean state (real Stack<T>s), one operand short and one spare beneath, maxima depth..=depth+1, all operand values", "int instruction lt", "quick", panic_props=["C03"]),
        K("c01::p_c01_int_le", "lean state (real Stack<T>s), one operand short and one spare beneath, maxima depth..=depth+1, all operand values", "int instruction le", "thorough", panic_props=["C03"]),
        K("c01::p_c01_int_gt", "lean state (real Stack<T>s), one operand short and one spare beneath, maxima depth..=depth+1, all operand values", "int instruction gt", "thorough", panic_props=["C03"]),
        K("c01::p_c01_int_ge", "lean state (real Stack<T>s), one operand short and one spare beneath, maxima depth..=depth+1, all operand values", "int instruction ge", "thorough", panic_props=["C03"]),
        K("c01::p_c01_int_from_boolean", "lean state (real Stack<T>s), one operand short and one spare beneath, maxima depth..=depth+1, all operand values", "int instruction from_boolean", "quick", panic_props=["C03"]),
        K("c01::p_c01_int_pop", "lean state (real Stack<T>s), one operand short and one spare beneath, maxima depth..=depth+1, all operand values", "int instruction pop", "thorough", panic_props=["C03"]),
        K("c01::p_c01_int_dup", "lean state (real Stack<T>s), one operand short and one spare beneath, maxima depth..=depth+1, all operand values", "int instruction dup", "quick", panic_props=["C03"]),
        K("c01::p_c01_int_swap", "lean state (real Stack<T>s), one operand short and one spare beneath, maxima depth..=depth+1, all operand values", "int instruction swap", "quick", panic_props=["C03"]),
        K("c01::p_c01_int_is_empty", "lean state (real Stack<T>s), one operand short and one spare beneath, maxima depth..=depth+1, all operand values", "int instruction is_empty", "thorough", panic_props=["C03"]),
        K("c01::p_c01_int_depth", "lean state (real Stack<T>s), one operand short and one spare beneath, maxima depth..=depth+1, all operand values", "int instruction depth", "thorough", panic_props=["C03"]),
        K("c01::p_c01_int_flush", "lean state (real Stack<T>s), one operand short and one spare beneath, maxima depth..=depth+1, all operand values", "int instruction flush", "thorough", panic_props=["C03"]),
        K("c01::p_c01_int_push", "lean state (real Stack<T>s), one operand short and one spare beneath, maxima depth..=depth+1, all operand values", "int instruction push", "thorough", panic_props=["C03"]),
        K("c01::p_c01_bool_pop", "lean state (real Stack<T>s), one operand short and one spare beneath, maxima depth..=depth+1, all operand values", "bool instruction pop", "thorough", panic_props=["C03"]),
        K("c01::p_c01_bool_push", "lean state (real Stack<T>s), one operand short and one spare beneath, maxima depth..=depth+1, all operand values", "bool instruction push", "thorough", panic_props=["C03"]),
        K("c01::p_c01_bool_dup", "lean state (real Stack<T>s), one operand short and one spare beneath, maxima depth..=depth+1, all operand values", "bool instruction dup", "thorough", panic_props=["C03"]),
        K("c01::p_c01_bool_swap", "lean state (real Stack<T>s), one operand short and one spare beneath, maxima depth..=depth+1, all operand values", "bool instruction swap", "thorough", panic_props=["C03"]),
        K("c01::p_c01_bool_is_empty", "lean state (real Stack<T>s), one operand short and one spare beneath, maxima depth..=depth+1, all operand values", "bool instruction is_empty", "thorough", panic_props=["C03"]),
        K("c01::p_c01_bool_depth", "lean state (real Stack<T>s), one operand short and one spare beneath, maxima depth..=depth+1, all operand values", "bool instruction depth", "thorough", panic_props=["C03"]),
        K("c01::p_c01_bool_flush", "lean state (real Stack<T>s), one operand short and one spare beneath, maxima depth..=depth+1, all operand values", "bool instruction flush", "thorough", panic_props=["C03"]),
        K("c01::p_c01_bool_print", "lean state (real Stack<T>s), one operand short and one spare beneath, maxima depth..=depth+1, all operand values", "bool instruction print", "thorough", panic_props=["C03"]),
        K("c01::p_c01_bool_println", "lean state (real Stack<T>s), one operand short and one spare beneath, maxima depth..=depth+1, all operand values", "bool instruction println", "quick", panic_props=["C03"]),
        K("c01::p_c01_bool_not", "lean state (real Stack<T>s), one operand short and one spare beneath, maxima depth..=depth+1, all operand values", "bool instruction not", "thorough", panic_props=["C03"]),
        K("c01::p_c01_bool_or", "lean state (real Stack<T>s), one operand short and one spare beneath, maxima depth..=depth+1, all operand values", "bool instruction or", "thorough", panic_props=["C03"]),
        K("c01::p_c01_bool_and", "lean state (real Stack<T>s), one operand short and one spare beneath, maxima depth..=depth+1, all operand values", "bool instruction and", "quick", panic_props=["C03"]),
        K("c01::p_c01_bool_xor", "lean state (real Stack<T>s), one operand short and one spare beneath, maxima depth..=depth+1, all operand values", "bool instruction xor", "thorough", panic_props=["C03"]),
        K("c01::p_c01_bool_implies", "lean state (real Stack<T>s), one operand short and one spare beneath, maxima depth..=depth+1, all operand values", "bool instruction implies", "quick", panic_props=["C03"]),
        K("c01::p_c01_bool_from_int", "lean state (real Stack<T>s), one operand short and one spare beneath, maxima depth..=depth+1, all operand values", "bool instruction from_int", "quick", panic_props=["C03"]),
        K("c01::p_c01_float_equal", "lean state (real Stack<T>s), one operand short and one spare beneath, maxima depth..=depth+1, all operand values", "float instruction equal", "quick", panic_props=["C03"]),
        K("c01::p_c01_float_not_equal", "lean state (real Stack<T>s), one operand short and one spare beneath, maxima depth..=depth+1, all operand values", "float instruction not_equal", "thorough", panic_props=["C03"]),
        K("c01::p_c01_float_gt", "lean state (real Stack<T>s), one operand short and one spare beneath, maxima depth..=depth+1, all operand values", "float instruction gt", "thorough", panic_props=["C03"]),
        K("c01::p_c01_float_lt", "lean state (real Stack<T>s), one operand short and one spare beneath, maxima depth..=depth+1, all operand values", "float instruction lt", "quick", panic_props=["C03"]),
        K("c01::p_c01_float_ge", "lean state (real Stack<T>s), one operand short and one spare beneath, maxima depth..=depth+1, all operand values", "float instruction ge", "thorough", panic_props=["C03"]),
        K("c01::p_c01_float_le", "lean state (real Stack<T>s), one operand short and one spare beneath, maxima depth..=depth+1, all operand values", "float instruction le", "thorough", panic_props=["C03"]),
        K("c01::p_c01_float_pop", "lean state (real Stack<T>s), one operand short and one spare beneath, maxima depth..=depth+1, all operand values", "float instruction pop", "thorough", panic_props=["C03"]),
        K("c01::p_c01_float_push", "lean state (real Stack<T>s), one operand short and one spare beneath, maxima depth..=depth+1, all operand values", "float instruction push", "thorough", panic_props=["C03"]),
        K("c01::p_c01_float_dup", "lean state (real Stack<T>s), one operand short and one spare beneath, maxima depth..=depth+1, all operand values", "float instruction dup", "thorough", panic_props=["C03"]),
        K("c01::p_c01_float_swap", "lean state (real Stack<T>s), one operand short and one spare beneath, maxima depth..=depth+1, all operand values", "float instruction swap", "thorough", panic_props=["C03"]),
        K("c01::p_c01_float_is_empty", "lean state (real Stack<T>s), one operand short and one spare beneath, maxima depth..=depth+1, all operand values", "float instruction is_empty", "thorough", panic_props=["C03"]),
        K("c01::p_c01_float_depth", "lean state (real Stack<T>s), one operand short and one spare beneath, maxima depth..=depth+1, all operand values", "float instruction depth", "thorough", panic_props=["C03"]),
        K("c01::p_c01_float_flush", "lean state (real Stack<T>s), one operand short and one spare beneath, maxima depth..=depth+1, all operand values", "float instruction flush", "thorough", panic_props=["C03"]),
        K("c01::p_c01_float_from_int", "lean state (real Stack<T>s), one operand short and one spare beneath, maxima depth..=depth+1, all operand values", "float instruction from_int", "quick", panic_props=["C03"]),
        K("c01::p_c01_float_add", "lean state (real Stack<T>s), one operand short and one spare beneath, maxima depth..=depth+1, all operand values", "float instruction add", "thorough", panic_props=["C03"]),
        K("c01::p_c01_float_subtract", "lean state (real Stack<T>s), one operand short and one spare beneath, maxima depth..=depth+1, all operand values", "float instruction subtract", "quick", panic_props=["C03"]),
        K("c01::p_c01_float_divide", "lean state (real Stack<T>s), one operand short and one spare beneath, maxima depth..=depth+1, all operand values", "float instruction divide", "quick", panic_props=["C03"]),
        K("c01::p_c01_block", "blocks of 0..=2 elements onto an exec stack of depth 0..=2, maximum from full to fitting; tiny instruction type (the generic impl<S, I> Instruction<S> for Vec<I>)", "block unfolding", panic_props=["C03"]),
        K("c04::p_c04_bulk", "prior depth 0..=2, 0..=3 items, maximum depth-1..=depth+1, exact-size and plain iterators", "Stack::push_many / try_extend (block unfolding and the builder rely on its assumed contract)"),
    ],
    "C05": [
        K("c05::p_c05_num_opens", "all six instruction kinds used by the parser harness", "NumOpens: DupBlock / When / Unless = 1, IfElse = 2, others 0"),
    ],
    "C04": [
        K("c04::p_c04_bulk", "prior depth 0..=2, 0..=3 items, maximum depth-1..=depth+1 (also below the current size), exact-size and plain iterators", "Stack::push_many / TryExtend::try_extend"),
        K("c04::p_c04_ops_d0", "one symbolic operation at depth 0, maximum 0..=1, against a reference LIFO model", "whole public Stack API"),
        K("c04::p_c04_ops_d1", "one symbolic operation at depth 1, maximum 0..=2", "whole public Stack API"),
        K("c04::p_c04_ops_d2", "one symbolic operation at depth 2, maximum 1..=3", "whole public Stack API"),
        K("c04::p_c04_ops_d3", "one symbolic operation at depth 3, maximum 2..=4", "whole public Stack API"),
        K("c04::p_c04_ops_d4", "one symbolic operation at depth 4, maximum 3..=5", "whole public Stack API", "thorough"),
    ],
}
KANI_ASSUME = ["rand 0.9 is executed, not modelled; uniformity of its words and of its sampling algorithms (choose, choose_multiple, shuffle, Uniform, choose_weighted) is assumed",
               "after the stated number of symbolic words a stream continues with all-ones words (accepted by every rejection loop in rand 0.9)"]
KANI_EXPL = "Kani/CBMC on the real compiled crates with a symbolic random stream; cover! witnesses for every 'can occur' clause; counterexamples replayed on the stable toolchain by kh-replay."

PROPS = {
    "C01": {
        "templates": PUSH, "expand": True, "extern": True, "steps": [run_verus_property, run_kani_property], "kani": KANI["PUSH"], "level": "proof",
        "explanation": "post of every instruction = total spec function on the abstract state (SV), written from the property text; Verus proves the "
                       "real perform() bodies (extracted from /repo on this run) against it for all values, depths and capacities; per-variant "
                       "obligation split localises a failing instruction.",
        "assumptions": PUSH_ASSUME,
    },
    "C02": {
        "templates": PUSH, "expand": True, "extern": True, "steps": [run_verus_property, run_kani_property], "kani": KANI["PUSH"], "level": "proof",
        "explanation": "the failure clause of every L1/L2 contract: on Err the carried state is view-identical to the input state (all stacks, "
                       "capacities, output, inputs, step limit), Recoverable vs Fatal as prescribed; TryRecover maps Recoverable to the carried state.",
        "assumptions": PUSH_ASSUME,
    },
    "C03": {
        "templates": PUSH, "expand": True, "extern": True, "steps": [run_verus_property, run_kani_property], "kani": KANI["PUSH"], "level": "proof",
        "explanation": "wf (every stack within its maximum) is preserved by every instruction outcome, fatal errors are only StackError::Overflow, "
                       "and Verus' own obligations (no arithmetic overflow, no out-of-bounds index, unreachable!() proved unreachable, termination "
                       "of every loop) hold on the extracted bodies.",
        "assumptions": PUSH_ASSUME,
    },
    "C05": {
        "templates": PRELUDE + STD + STACK + PUSH_L1 + PUSH_L2 + ["70_parser.vrs"] + MAIN, "expand": True, "extern": True,
        "steps": [run_verus_property, run_kani_property, run_native_enum], "kani": KANI["C05"], "level": "proof",
        "native": [{"harness": "c05_enum_6", "bound": "every genome of length 0..=6 over all seven gene kinds {Close, Add, When, IfElse, Unless, DupBlock, Noop} (137 257 genomes)",
                    "what": "the real From<Plushy> for Vec<PushProgram> against an independent recursive descent (fallback when a rewritten parser defeats the extractor)"},
                   {"harness": "c05_enum_8", "tier": "thorough", "bound": "every genome of length 0..=8 over the seven gene kinds (6 725 601 genomes)", "what": "as c05_enum_6", "timeout": 3000}],
        "explanation": "parse_from_plushy (instantiated at vec::IntoIter<PushGene>) is proved equal to an independent recursive-descent reference "
                       "parser (parse_seq/parse_blocks) with termination; lemmas over the reference parser prove the declarative reading: depth-first "
                       "flattening == the genome's instruction sequence, every instruction opening k blocks is followed by exactly k well-shaped blocks, "
                       "nothing is left over at top level; NumOpens impls are under contract (only DupBlock/When/Unless = 1, IfElse = 2).",
        "assumptions": ["vstd's prophetic model of std::vec::IntoIter (remaining/next)",
                        "axiom_exhausted_into_iter_measure: an exhausted vec::IntoIter has termination measure 0"],
    },
    "C04": {
        "templates": PRELUDE + STD + STACK + MAIN, "extern": True,
        "steps": [run_verus_property, run_kani_property], "kani": KANI["C04"],
        "level": "proof",
        "explanation": "Total functional contracts on the real bodies of Stack<T>::{set_max_stack_size,max_stack_size,size,is_empty,"
                       "is_full,top,top2,top3,pop,pop2,pop3,discard,push,push_many,try_extend} (generic T, unbounded length, every capacity); the history "
                       "quantifier reduces to the per-call contracts because each contract determines the post-state completely.",
        "assumptions": ["Vec<T> behaves as vstd specifies (last/get/pop/push/len/truncate)",
                        "the std iterator / slice calls inside push_many and try_extend behave as their stand-in contracts say (specs/10_stack.vrs, 11_try_extend.vrs)",
                        "std::any::type_name returns some &'static str"],
    },
}

for _pid in ("C06", "C11", "C12", "C13", "C14", "C15", "C16", "C17"):
    PROPS[_pid] = {"steps": [run_kani_property], "level": "model_checking", "kani": KANI[_pid], "explanation": KANI_EXPL, "assumptions": KANI_ASSUME}

PROPS["C19"] = {"templates": PRELUDE + STD + STACK + ["20_plumbing.vrs", "30_state.vrs", "88_builder.vrs"] + MAIN, "expand": True, "extern": True,
                "steps": [run_compile_snippets, run_verus_property, run_kani_property], "snippets": "c19", "level": "proof", "kani": KANI["C19"],
                "explanation": "compile-time part: one snippet per illegal / legal builder call sequence compiled alone against the real crate (rustc's trait solver decides the "
                               "type-state preconditions, statically and for all values); run-time part: Kani on the real generated PushState builder.",
                "assumptions": KANI_ASSUME + ["std::hash::RandomState::new is stubbed (zero keys) in the builder harnesses: HashMap iteration order is never observed by the builder"]}

# C15: Verus (generic payload T) + the complete Kani harnesses at T = i64
PROPS["C15"] = {"template_sets": [PRELUDE + ["80_ec_order.vrs"] + MAIN, PRELUDE + ["84_ec_operators.vrs"] + MAIN], "expand": ["ec-core"], "extern": True, "steps": [run_verus_multi, run_kani_property], "level": "proof",
                "kani": KANI["C15"],
                "explanation": "Verus: the real (hand-written and derived) cmp / partial_cmp / eq bodies of Score, Error, TestResult, TestResults and EcIndividual are proved against "
                               "spec functions stated over the payload's own order (generic T), with lemmas that lawfulness is inherited; GenomeScorer::apply returns EcIndividual { genome, test_results: scorer.score(genome) } "
                               "for the genome its maker produced (specs/84_ec_operators.vrs); Kani: the compiled orderings at T = i64 "
                               "(complete) and the aggregation / scoring functions.",
                "assumptions": KANI_ASSUME + ["vstd's PartialEqSpec / PartialOrdSpec / OrdSpec describe the payload's order", "Ordering::reverse contract (assumed)"]}

# C13: Verus for the build-time arithmetic (generic members) + the Kani harnesses for the coin / delegation
PROPS["C13"] = {"templates": PRELUDE + ["82_ec_weighted.vrs"] + MAIN, "extern": True, "steps": [run_verus_property, run_kani_property], "level": "proof",
                "kani": KANI["C13"],
                "explanation": "Verus: WeightedPair::new, Weighted::new, weight(), and the two non-Result with_weighted_item impls are proved (generic members, all u32) to reject "
                               "exactly the totals that do not fit, to expose the exact sum and to build the coin a/(a+b) (rand's Bernoulli::from_ratio contract assumed); Kani: the real "
                               "rand coin and the delegation, see `bounded`.",
                "assumptions": KANI_ASSUME + ["Bernoulli::from_ratio(n, d) fails exactly for n > d or d == 0 and otherwise yields the n/d coin (assumed; executed, not modelled, by the Kani harnesses)"]}

# C14: Verus for the combinators (generic parts, any nesting depth) + the Kani harnesses (Vec / RepeatWith, error display, stream positions)
PROPS["C14"] = {"templates": PRELUDE + ["84_ec_operators.vrs"] + MAIN, "extern": True, "steps": [run_verus_property, run_kani_property], "level": "proof",
                "kani": KANI["C14"],
                "explanation": "Verus: every operator is specified as a function op(input, stream state) -> (result, stream state); the real apply() bodies of Then, And, Map over a pair, "
                               "Identity, Constant, Mutate, Recombine, Select, GenomeExtractor, GenomeScorer and the by-reference impls are proved against compositional spec functions for arbitrary parts, so any nesting depth "
                               "follows by construction; Kani: Map over array / Vec, RepeatWith, error display, see `bounded`.",
                "assumptions": KANI_ASSUME + ["an arbitrary part satisfies the Operator contract (is a function of its input and the stream state) — the contract every combinator is proved to preserve",
                                              "Clone::clone returns a value equal to the original (axiom_clone_is_copy)"]}

# C08: Verus proof of the real Lexicase::select (instantiated at Vec<EcIndividual<G, TestResults<Res>>>)
PROPS["C08"] = {"templates": PRELUDE + ["86_ec_lexicase.vrs"] + MAIN, "expand": ["ec-core"], "extern": True, "steps": [run_verus_property], "level": "proof",
                "explanation": "the real body of Lexicase::select is proved (two nested loop invariants) to return an individual of lex_run(population, pi): the candidates left after "
                               "filtering, case by case in the shuffled order pi, down to those with a best result on that case; EmptyPopulation / MissingTestCase exactly as prescribed.",
                "assumptions": ["SliceRandom::shuffle returns a permutation of its input determined by the stream state (vx_shuffle stand-in whose body is that call); that every permutation is equally likely is rand's contract",
                                "the result type's order is a lawful total order (precondition `lawful::<Res>()`; inherited by Score / Error from their payload, C15)",
                                "vstd's models of Vec, slices (split_first, first, get, is_empty), ranges/collect, mem::swap and for-loops over them; Option::copied contract"]}

# C07: Verus for Best / Worst / Tournament (generic individual type with a lawful total order, any population, any k) + the Kani harnesses on the real rand code
PROPS["C07"] = {"templates": PRELUDE + ["87_ec_selectors.vrs"] + MAIN, "extern": True, "steps": [run_verus_property, run_kani_property], "level": "proof",
                "kani": KANI["C07"],
                "explanation": "Verus: the real select() bodies of Best, Worst, Random and Tournament (instantiated at Vec<I>, I any type with a lawful total order) are proved to return a maximal / "
                               "minimal member, resp. the best of the k pairwise distinct members the stream draws (TournamentSizeError exactly when the population is smaller than k); lemmas: "
                               "the winner is at least as good as k-1 OTHER members, a tournament over the whole population returns a maximal member, a tournament of size 1 returns the one "
                               "drawn member. Kani: the compiled selectors on the real rand sampler, see `bounded`.",
                "assumptions": KANI_ASSUME + ["Iterator::max / min return a maximal / minimal element (vx_iter_max / vx_iter_min / VxRefs stand-ins whose bodies are those calls)",
                                              "IndexedRandom::choose_multiple(rng, k) yields min(k, len) elements at pairwise distinct positions determined by the stream state, IndexedRandom::choose an in-range one "
                                              "(VxSlice / vx_choose stand-ins whose bodies are those calls); that every k-subset / position is equally likely is rand's contract, assumed",
                                              "the individuals' order is a lawful total order (precondition `lawful::<I>()`; proved for EcIndividual / TestResults / Score / Error from their payload under C15)"]}

# C18: Verus for the uniform member choices (representation invariant of OneOfCloning, ChooseCloning) + the Kani harnesses (collection generators, conversions, the real rand samplers)
PROPS["C18"] = {"templates": PRELUDE + ["89_ec_choices.vrs"] + MAIN, "extern": True, "steps": [run_verus_property, run_kani_property], "level": "model_checking",
                "kani": KANI["C18"],
                "explanation": KANI_EXPL + " Verus (unbounded, any member type, any collection length): OneOfCloning::new rejects exactly the empty collection and otherwise establishes the representation "
                               "invariant (Uniform range = 0..len, count = len); from that invariant sample returns a clone of the member at the drawn in-range position (its unwrap() cannot fail) and "
                               "num_choices reports the number of members; the same for the borrowing ChooseCloning over rand's Choose.",
                "assumptions": KANI_ASSUME + ["rand's Uniform::new(lo, hi) exists exactly for lo < hi and samples lo <= x < hi; slice::Choose::new exists exactly for a non-empty slice, reports its length and samples a member "
                                              "(stand-ins whose bodies are those calls); that every position is equally likely is rand's contract, assumed",
                                              "Clone::clone is specified by vstd's `cloned` relation"]}

# C06: Verus for the combination selectors (Weighted, WeightedPair) and Lexicase; Kani for membership-by-address, the remaining selectors and the no-panic clause
PROPS["C06"] = {"template_sets": [PRELUDE + ["82_ec_weighted.vrs"] + MAIN, PRELUDE + ["86_ec_lexicase.vrs"] + MAIN, PRELUDE + ["87_ec_selectors.vrs"] + MAIN, PRELUDE + ["83_ec_erased.vrs"] + MAIN], "expand": ["ec-core"], "extern": True,
                "steps": [run_verus_multi, run_kani_property], "level": "model_checking", "kani": KANI["C06"],
                "explanation": KANI_EXPL + " Verus (unbounded): Weighted::select / WeightedPair::select return a member's selection or exactly ZeroWeight / the member's error; "
                               "Lexicase::select returns population[i] for a surviving i or exactly EmptyPopulation / MissingTestCase; Best / Worst / Random / Tournament return population[i] "
                               "for an in-range i or exactly EmptyPopulation / TournamentSizeError; the erased dyn_select returns exactly what the wrapped selector returns, its error converted (see C07, C08, C13, C17).",
                "assumptions": KANI_ASSUME}

# C16: self-composition harnesses (Kani) + the functional contracts proved elsewhere (Verus): a function whose result and
# final stream state are proved EQUAL TO A SPEC FUNCTION of (arguments, stream state) cannot depend on anything else
PROPS["C16"] = {"template_sets": [PRELUDE + ["82_ec_weighted.vrs"] + MAIN, PRELUDE + ["84_ec_operators.vrs"] + MAIN, PRELUDE + ["86_ec_lexicase.vrs"] + MAIN, PRELUDE + ["87_ec_selectors.vrs"] + MAIN, PRELUDE + ["89_ec_choices.vrs"] + MAIN, PRELUDE + ["90_ec_linear.vrs"] + MAIN, PUSH],
                "expand": ["ec-core", "push"], "extern": True,
                "steps": [run_verus_multi, run_kani_property], "level": "model_checking", "kani": KANI["C16"],
                "explanation": KANI_EXPL + " Verus (unbounded): Weighted / WeightedPair::select, the operator combinators, Lexicase / Best / Worst / Random / Tournament::select, OneOfCloning / ChooseCloning::sample, TwoPointXo / UniformXo::recombine and PushState::run_to_completion are each proved "
                               "equal to a spec function of their arguments and the stream state (resp. of the abstract machine state), hence deterministic; a failure of one of those "
                               "contracts is reported under its own property and leaves C16 undecided.",
                "assumptions": KANI_ASSUME + ["the Verus contracts model a generator by its abstract state rng_state(rng) and rand's shuffle / Bernoulli sampling as functions of that state"]}

# C10: Verus for the exchange primitives, the Crossover contract and the recombinators built on it + the Kani harnesses on the compiled code
PROPS["C10"] = {"templates": PRELUDE + ["90_ec_linear.vrs"] + MAIN, "extern": True, "steps": [run_verus_property, run_kani_property], "level": "proof",
                "kani": KANI["C10"],
                "explanation": "Verus (all lengths / indices / ranges / stream states): Bitstring::crossover_gene and crossover_segment are proved against the Crossover contract (Err and nothing changed exactly when the "
                               "index / range leaves either genome, otherwise exactly the addressed genes swapped); from that contract alone TwoPointXo over any Crossover genome returns the first parent with ONE "
                               "contiguous segment [min, max) of two draws from 0..=len taken from the second parent, and UniformXo (loop invariant) takes position i from the second parent exactly when the i-th coin "
                               "shows heads; TwoPointXo over Vec<T> is proved directly; different lengths give DifferentGenomeLength(a, b) with the stream untouched; random_range's non-empty-range "
                               "precondition and the slice bounds are proved, so no panic is reachable in these bodies. Kani: UniformXo over Vec<T> (iterator closure), the tuple forms, and the same facts on "
                               "compiled code with the real rand, see `bounded`.",
                "assumptions": KANI_ASSUME + ["<[T]>::swap_with_slice, Range::clone, Vec::get_mut(range) and `a[i..j].swap_with_slice(&mut b[i..j])` contracts (stand-ins whose bodies are those calls)",
                                              "Rng::random_range(range) returns a position inside a non-empty range, Rng::random::<bool>() a coin, both determined by the stream state (stand-ins); uniformity / fairness is rand's contract",
                                              "an arbitrary Crossover genome satisfies the Crossover contract (proved for Bitstring)"]}

# C12: the uniform-crossover clause also has a Verus part (one coin per position, each from its own draw; fairness of the coin is rand's contract)
PROPS["C12"].update({"templates": PRELUDE + ["90_ec_linear.vrs"] + MAIN, "extern": True, "steps": [run_verus_property, run_kani_property],
                     "explanation": KANI_EXPL + " Verus (unbounded): UniformXo over any Crossover genome takes position i from the second parent exactly when the i-th coin — Rng::random::<bool>(), one draw "
                                    "per position — shows heads (loop invariant over the real body).",
                     "assumptions": KANI_ASSUME + ["Rng::random::<bool>() is a fair coin determined by the stream state (stand-in whose body is that call; fairness is rand's contract)"]})

# C11: the Linear impls the mutators measure genomes with (Plushy / Vector / Bitstring size and gene_mut) have a Verus part; the mutators themselves
# (iterator adapters with FnMut closures over &mut rng) stay with the bounded harnesses
PROPS["C11"].update({"template_sets": [PROPS["C05"]["templates"], PRELUDE + ["90_ec_linear.vrs"] + MAIN], "expand": True, "extern": True,
                     "steps": [run_verus_multi, run_kani_property],
                     "explanation": KANI_EXPL + " Verus (unbounded): Plushy::size counts every gene (close markers included), Vector::size / Bitstring::size are the number of genes, gene_mut addresses "
                                    "exactly the gene at the position — the `Linear` impls that WithOneOverLength, UMAD and the generators measure genomes with.",
                     "assumptions": KANI_ASSUME + ["Vec::len / Vec::get_mut as vstd specifies"]})

# C17: the blanket `impl<T: X> DynX for T` half of the erased layer is proved for an ARBITRARY wrapped implementation; the generated pointer impls need an
# unsizing coercion Verus rejects and stay with the Kani harnesses
PROPS["C17"].update({"templates": PRELUDE + ["83_ec_erased.vrs"] + MAIN, "extern": True, "steps": [run_verus_property, run_kani_property],
                     "explanation": KANI_EXPL + " Verus (unbounded, any wrapped implementation satisfying its trait contract): dyn_select / dyn_mutate / dyn_recombine / dyn_apply / dyn_make_child of the blanket "
                                    "impls return the wrapped call's value, its error converted by Into, and leave the stream in the wrapped call's final state.",
                     "assumptions": KANI_ASSUME + ["an arbitrary wrapped implementation satisfies its trait contract (is a function of its arguments and the stream state)",
                                                   "the generated impls for the 28 pointer flavours of `dyn DynX` are NOT under Verus (unsizing `&mut &mut R -> &mut dyn RngCore` unsupported); Kani only"]})
