#!/usr/bin/env python3
"""Re-runs the current checks against every kept seeded change (seeded/<id>/patch.diff) in a scratch worktree and records
the answers under meta.json[<field>].  usage: seedrerun.py <field> [id-prefix ...]"""
import json, os, subprocess, sys, glob, time
WT = os.environ.get("SEED_WT", "/tmp/mt_seed")
def sh(c): return subprocess.run(c, shell=True, text=True, capture_output=True)
field = sys.argv[1]
prefixes = sys.argv[2:]
if not os.path.exists(WT):
    r = sh(f"git -C /repo worktree add --detach {WT} HEAD"); assert r.returncode == 0, r.stderr
head = sh("git -C /repo rev-parse HEAD").stdout.strip()
for d in sorted(glob.glob("/verif/seeded/*")):
    name = os.path.basename(d)
    if prefixes and not any(name.startswith(p) for p in prefixes): continue
    prop = name.split("-")[0][:3]
    sh(f"git -C {WT} checkout -q --detach {head} && git -C {WT} checkout -- . && git -C {WT} clean -fdq -e target")
    r = sh(f"git -C {WT} apply {d}/patch.diff")
    if r.returncode != 0:
        print("SKIP", name, r.stderr[:100]); continue
    meta = json.load(open(d + "/meta.json"))
    meta[field] = {}
    # a change seeded for one property may be another property's business as well (meta["verif_also"])
    for pp in [prop] + [x for x in meta.get("verif_also", []) if x != prop]:
        t0 = time.time()
        r = sh(f"VERIF_REPO={WT} /verif/bin/check {pp}")
        tag = "VIOLATION" if "VIOLATION" in r.stdout else ("UNDECIDED" if r.returncode == 2 else ("OK" if r.returncode == 0 else "rc%d" % r.returncode))
        lines = [l[:260] for l in r.stdout.split("\n") if l.startswith(("VIOLATION", "UNDECIDED"))][:4]
        meta[field][pp] = {"result": tag, "seconds": round(time.time() - t0, 1), "lines": lines}
        print(name, pp, tag, round(time.time() - t0), flush=True)
        for l in lines[:2]: print("    ", l[:180], flush=True)
    json.dump(meta, open(d + "/meta.json", "w"), indent=1)
sh(f"git -C {WT} checkout -- . && git -C {WT} clean -fdq -e target")
