#!/usr/bin/env python3
"""dev aid: extract the given templates (PRELUDE + … + MAIN added) and run Verus once, printing its diagnostics.
usage: vdev.py [--expand pkg] [--push] template.vrs…"""
import sys, os, json
sys.path.insert(0, os.path.dirname(os.path.abspath(__file__)))
import vlib, props
root = os.path.dirname(os.path.dirname(os.path.abspath(__file__)))
args = sys.argv[1:]
ex = []
while "--expand" in args:
    i = args.index("--expand"); ex.append(args[i + 1]); del args[i:i + 2]
run = vlib.Run(root, "DEV", "quick")
expanded = None
for pkg in ex:
    expanded = run.expand(pkg)
tpls = props.PRELUDE + args + props.MAIN
try:
    path = run.extract(tpls, name="dev", expanded=expanded)
except vlib.Undecided as e:
    print("UNDECIDED", e); sys.exit(2)
extra = run.ensure_extern()
rc, so, se, _ = vlib.sh(["verus", path, "--multiple-errors", "6"] + list(extra), timeout=600)
print(se[-12000:]); print(so[-1500:])
