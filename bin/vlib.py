"""Driver library for /verif/bin/check (see DESIGN.md §3)."""
import sys, os, json, re, subprocess, time, shutil, glob

VERUS_TOOLCHAIN = "1.98.1-x86_64-unknown-linux-gnu"
SPEC_FAIL_PATTERNS = [
    "postcondition not satisfied", "precondition not satisfied", "unable to prove", "post-condition", "pre-condition", "assertion failed",
    "invariant not satisfied", "possible arithmetic underflow/overflow", "possible division by zero",
    "decreases not satisfied", "could not prove termination", "unreachable", "index out of bounds",
    "possible bit shift underflow/overflow", "requirement not satisfied", "loop invariant",
    "cannot show invariant", "failed precondition", "might fail", "not satisfied",
    "possible overflow", "possible underflow", "may be out of bounds", "recommendation not met",
]
RLIMIT_PATTERNS = ["Resource limit (rlimit) exceeded", "rlimit exceeded", "resource limit"]
ASSUME_RE = re.compile(
    r"(\bassume\s*\(|\badmit\s*\(|external_body|assume_specification|external_type_specification|"
    r"external_trait_specification|external_fn_specification|#\[verifier::external\]|#\[verifier::trusted\]|"
    r"#\[verifier::truncate\]|accept_recursive_types|broadcast\s+axiom|\baxiom fn)")


def sh(cmd, cwd=None, env=None, timeout=None, stdin=None):
    """run a command; on timeout the WHOLE process group is killed (cargo kani leaves cbmc grandchildren behind otherwise)"""
    import signal
    e = dict(os.environ)
    e.setdefault("CARGO_NET_OFFLINE", "true")
    if env:
        e.update(env)
    t0 = time.time()
    p = subprocess.Popen(cmd, cwd=cwd, env=e, stdout=subprocess.PIPE, stderr=subprocess.PIPE, text=True,
                         stdin=subprocess.PIPE if stdin is not None else None, start_new_session=True)
    try:
        so, se = p.communicate(input=stdin, timeout=timeout)
        return p.returncode, so, se, time.time() - t0
    except subprocess.TimeoutExpired:
        try:
            os.killpg(p.pid, signal.SIGKILL)
        except ProcessLookupError:
            pass
        so, se = p.communicate()
        return 124, so or "", (se or "") + "\nTIMEOUT", time.time() - t0


class Undecided(Exception):
    pass


class Run:
    def __init__(self, root, pid, tier):
        self.root, self.pid, self.tier = root, pid, tier
        self.t0 = time.time()
        self.seed = int(os.environ.get("VERIF_SEED", "0") or 0)
        self.repo = os.environ.get("VERIF_REPO", "/repo")
        self.build = os.path.join(root, "build", pid)
        os.makedirs(self.build, exist_ok=True)
        self.violations = []       # dicts: obligation, message, labels, replay
        self.known = []
        self.notes = []
        self.obligations = []      # (name, backend, ok, seconds)
        self.bounded = []          # bounded stand-ins (not counted as proved)
        self.assumptions = []
        self.trusted = []
        self.functions = []
        self.samples = []
        self.backends = {}

    # ---------------------------------------------------------------- vx
    def ensure_vx(self):
        vx = os.path.join(self.root, "vx", "target", "release", "vx")
        src = os.path.join(self.root, "vx", "src", "main.rs")
        if not os.path.exists(vx) or os.path.getmtime(vx) < os.path.getmtime(src):
            rc, out, err, _ = sh(["cargo", "build", "--offline", "--release"], cwd=os.path.join(self.root, "vx"))
            if rc != 0:
                raise Undecided("cannot build vx:\n" + err[-2000:])
        return vx

    def ensure_extern(self):
        """foreign crates (ordered-float, rand) built with Verus' pinned toolchain; linked with --extern"""
        d = os.path.join(self.root, "extern")
        deps = os.path.join(d, "target", "release", "deps")
        def find(n):
            g = sorted(glob.glob(os.path.join(deps, "lib%s-*.rlib" % n)))
            return g[0] if g else None
        if not find("ordered_float") or not find("rand"):
            rc, so, se, _ = sh(["cargo", "build", "--offline", "--release"], cwd=d, env={"RUSTUP_TOOLCHAIN": VERUS_TOOLCHAIN})
            if rc != 0:
                raise Undecided("cannot build extern crates: " + se[-1500:])
        return ["--extern", "ordered_float=" + find("ordered_float"), "--extern", "num_traits=" + find("num_traits"),
                "--extern", "rand=" + find("rand"), "-L", "dependency=" + deps]

    def expand(self, package="push"):
        """macro expansion of the real crate (cargo +nightly rustc -Zunpretty=expanded): the source of the
        #[push_state]-generated accessors/builder and the thiserror From impls"""
        outdir = os.path.join(self.build, "expanded")
        os.makedirs(outdir, exist_ok=True)
        out = os.path.join(outdir, package + ".rs")
        if package in getattr(self, "_expanded_done", set()):
            return outdir
        import hashlib
        # one target directory per checked tree: cargo names path-dependency artifacts by workspace-relative path, so a
        # shared directory would let a proc-macro built from another checkout be reused as "fresh"
        tdir = os.path.join(self.root, "build", "expand-target-" + hashlib.sha1(os.path.abspath(self.repo).encode()).hexdigest()[:10])
        rc, so, se, t = sh(["cargo", "+nightly", "rustc", "--offline", "-p", package, "--lib", "--", "-Zunpretty=expanded"],
                           cwd=self.repo, env={"CARGO_TARGET_DIR": tdir}, timeout=900)
        if rc != 0 or "fn " not in so:
            raise Undecided("macro expansion of %s failed (the tree does not compile?):\n%s" % (package, se[-2000:]))
        open(out, "w").write(so)
        self.notes.append("expanded %s in %.1fs" % (package, t))
        self._expanded_done = getattr(self, "_expanded_done", set()) | {package}
        return outdir

    def extract(self, templates, name="all", expanded=None):
        vx = self.ensure_vx()
        out = os.path.join(self.build, name + ".rs")
        rec = os.path.join(self.build, name + ".extraction.json")
        tpls = [os.path.join(self.root, "specs", t) for t in templates]
        cmd = [vx, "--repo", self.repo, "-o", out, "--record", rec]
        if expanded:
            cmd += ["--expanded", expanded]
        rc, so, se, _ = sh(cmd + tpls)
        if rc != 0:
            raise Undecided("extraction: " + se.strip())
        self.extraction = json.load(open(rec))
        for r in self.extraction:
            if r["kind"] == "fn":
                self.functions.append({"fn": "%s :: %s :: %s" % (r["file"].replace("@expanded/", "<macro expansion of> "), r["container"], r["fn"]),
                                       "lines": r["lines"], "hash": r["hash"], "transforms": r["transforms"]})
        return out

    # ---------------------------------------------------------------- assumption scan
    def scan_assumptions(self, path):
        allow = set()
        ap = os.path.join(self.root, "specs", "ALLOW.txt")
        for l in open(ap):
            l = l.strip()
            if l and not l.startswith("# "):
                allow.add(re.sub(r"\s+", " ", l))
        found = []
        lines = open(path).read().split("\n")
        i = 0
        while i < len(lines):
            l = lines[i]
            if l.strip().startswith("//") or not ASSUME_RE.search(l):
                i += 1
                continue
            decl = l.strip()
            # an attribute: gather the following attribute lines and the item line they decorate
            while decl.rstrip().endswith("]") and lines[i].strip().startswith("#[") and i + 1 < len(lines):
                i += 1
                decl = decl + " " + lines[i].strip()
                if not lines[i].strip().startswith("#["):
                    break
            decl = re.sub(r"\s+", " ", decl)
            decl = re.sub(r"\s*[{;]\s*$", "", decl)
            found.append(decl)
            i += 1
        bad = [f for f in found if f not in allow]
        if bad:
            raise Undecided("assumption(s) not on the allow-list specs/ALLOW.txt (refusing to trust them):\n  "
                            + "\n  ".join(bad))
        self.trusted.extend(found)

    # ---------------------------------------------------------------- labels
    @staticmethod
    def label_maps(path):
        """props per line (function-level //@props) and clause labels // [Cxx ...: name]"""
        lines = open(path).read().split("\n")
        fn_props, cur = {}, []
        clause = {}
        for i, l in enumerate(lines, 1):
            m = re.search(r"//@props\s+(.*)$", l)
            if m:
                cur = m.group(1).split()
            fn_props[i] = cur
            m = re.search(r"(?://|/\*)\s*\[((?:C\d+\s*)+)(?::\s*([^\]]+))?\]", l)
            if m:
                clause[i] = (m.group(1).split(), (m.group(2) or "").strip())
        return lines, fn_props, clause

    # ---------------------------------------------------------------- verus
    def verus(self, path, extra=(), canary=True, timeout=1800, tag="verus"):
        """returns list of failure dicts; raises Undecided on non-verification errors"""
        src = open(path).read()
        if canary and "__vx_canary" not in src:
            src += ("\nverus! {\n// vacuity guard: this obligation is false and MUST be rejected on every run\n"
                    "proof fn __vx_canary(x: int) ensures x * 0 == 1 { }\n}\n")
            open(path, "w").write(src)
        cmd = ["verus", path, "--output-json", "--time", "--error-format=json", "--multiple-errors", "4",
               "--num-threads", "16"] + list(extra)
        rc, so, se, wall = sh(cmd, cwd=self.build, timeout=timeout)
        open(os.path.join(self.build, tag + ".stdout.json"), "w").write(so)
        open(os.path.join(self.build, tag + ".stderr.txt"), "w").write(se)
        if rc == 124:
            raise Undecided("verus timed out")
        try:
            res = json.loads(so)
        except Exception:
            raise Undecided("verus produced no JSON (rc=%d): %s" % (rc, se[-1500:]))
        diags = []
        for l in se.split("\n"):
            l = l.strip()
            if l.startswith("{"):
                try:
                    diags.append(json.loads(l))
                except Exception:
                    pass
        vr = res.get("verification-results", {})
        # per-function breakdown
        funcs = []
        smt = res.get("times-ms", {}).get("smt", {})
        for mod in smt.get("smt-run-module-times", []):
            for fb in mod.get("function-breakdown", []):
                funcs.append(fb)
        lines, fn_props, clause = self.label_maps(path)
        failures = []
        hard = []
        for d in diags:
            if d.get("level") != "error":
                continue
            msg = d.get("message", "")
            if msg.startswith("aborting due to"):
                continue
            spans = d.get("spans", [])
            prim = [s for s in spans if s.get("is_primary")] or spans
            if any(p in msg for p in RLIMIT_PATTERNS):
                raise Undecided("verus resource limit: " + d.get("rendered", msg)[:1500])
            if not any(p in msg for p in SPEC_FAIL_PATTERNS):
                hard.append(d.get("rendered", msg))
                continue
            line = prim[0]["line_start"] if prim else 0
            lend = prim[0]["line_end"] if prim else 0
            labs, lname = [], ""
            for ln in range(max(1, line - 1), lend + 1):
                if ln in clause:
                    labs, lname = clause[ln]
            allspans = [(s["line_start"], s["line_end"]) for s in spans]
            # function props: use the *latest* line mentioned (body) to find the enclosing fn tag
            anchor = max([a for a, _ in allspans] + [line])
            props = labs or fn_props.get(anchor, [])
            failures.append({"message": msg, "line": line, "anchor": anchor, "labels": props, "label_name": lname,
                             "rendered": d.get("rendered", ""), "text": lines[line - 1].strip() if line else ""})
        if hard:
            raise Undecided("verus rejected the extracted text (not a verification failure):\n" + "\n".join(hard)[:3000])
        # canary must be among the failures
        canary_hit = [f for f in failures if "x * 0 == 1" in f["text"] or "__vx_canary" in f["rendered"]]
        failures = [f for f in failures if f not in canary_hit]
        if canary and not canary_hit:
            raise Undecided("vacuity guard: the canary obligation `ensures x*0==1` was NOT rejected — verifier run is not trustworthy")
        nfun = 0
        for fb in funcs:
            fn = fb.get("function", "")
            if "__vx_canary" in fn:
                continue
            nfun += 1
            self.obligations.append((fn.split("::", 1)[-1], "verus/z3", bool(fb.get("success")), fb.get("time-micros", 0) / 1e6))
        if nfun == 0:
            raise Undecided("vacuity guard: Verus reported zero verified functions")
        exp_err = len(failures)
        self.backends.setdefault("verus/z3", {"version": res.get("verus", {}).get("version"), "smt_seconds": 0.0, "wall_seconds": 0.0})
        self.backends["verus/z3"]["smt_seconds"] += smt.get("smt-run", 0) / 1000.0
        self.backends["verus/z3"]["wall_seconds"] += wall
        self.verus_counts = (vr.get("verified", 0), vr.get("errors", 0))
        return failures

    # ---------------------------------------------------------------- findings
    def load_known(self):
        out = []
        p = os.path.join(self.root, "known_findings.txt")
        if os.path.exists(p):
            for l in open(p):
                l = l.strip()
                if l.startswith("finding:"):
                    m = re.match(r"finding:\s*property=(\S+)\s+obligation=(\S+)\s*(.*)", l)
                    if m:
                        out.append({"property": m.group(1), "obligation": m.group(2), "what": m.group(3)})
        return out

    def report_failure(self, obligation, message, detail, failing_input=None, replay_cmd=None):
        for k in self.load_known():
            if k["property"] == self.pid and k["obligation"] == obligation:
                self.known.append(k)
                print("KNOWN-FINDING: property=%s %s (%s)" % (self.pid, k["what"], obligation))
                return
        os.makedirs(os.path.join(self.root, "replays"), exist_ok=True)
        safe = re.sub(r"[^A-Za-z0-9_.-]+", "_", obligation)[:100]
        rp = os.path.join(self.root, "replays", "%s-%s.json" % (self.pid, safe))
        json.dump({"property": self.pid, "failed_obligation": obligation, "message": message,
                   "verifier_output": detail, "failing_input": failing_input, "replay_cmd": replay_cmd,
                   "repo": self.repo}, open(rp, "w"), indent=1)
        self.violations.append({"obligation": obligation, "message": message, "replay": rp,
                                "failing_input": failing_input})

    # ---------------------------------------------------------------- finish
    def finish(self, level, cfg, undecided=None):
        wall = time.time() - self.t0
        nob = len(self.obligations)
        ndis = len([o for o in self.obligations if o[2]])
        ev = {
            "property_id": self.pid, "tier": self.tier, "seed": self.seed, "level": level,
            "coverage": {
                "obligations": nob, "discharged": ndis,
                "checker_cmd": cfg.get("checker_cmd", "bin/check %s --tier %s" % (self.pid, self.tier)),
                "trusted_base": sorted(set(self.trusted)),
                "functions_under_contract": self.functions,
                "obligation_list": [{"name": o[0], "backend": o[1], "ok": o[2], "seconds": round(o[3], 4)} for o in self.obligations],
                "bounded": self.bounded,
                "backends": self.backends,
                "samples": self.samples[:8] or ([o[0] for o in self.obligations[:5]] + [b for b in self.bounded[:3]]),
                "evaluations": max(1, nob + sum(b.get("checks", 1) for b in self.bounded)),
                "distinct_nontrivial": ndis + len([b for b in self.bounded if b.get("ok")]),
                "rule": "one obligation = one function's full set of verification conditions accepted by Verus (per-function SMT query), "
                        "or one Kani harness; bounded harnesses are listed under `bounded` and not counted as discharged",
                "explanation": cfg.get("explanation", ""),
                "known_findings": self.known,
                "undecided": undecided,
            },
            "assumptions": cfg.get("assumptions", []) + ["Verus exec integers are machine integers with overflow obligations; spec `int` is mathematical",
                                                         "trusted declarations: see coverage.trusted_base"],
            "wall_s": round(wall, 2),
            "violations": len(self.violations),
        }
        # evidence/ describes /repo; a development run against another tree (VERIF_REPO) must not overwrite it
        evdir = os.path.join(self.root, "evidence") if os.path.abspath(self.repo) == "/repo" else os.path.join(self.root, "build", "evidence-other-tree")
        os.makedirs(evdir, exist_ok=True)
        json.dump(ev, open(os.path.join(evdir, self.pid + ".json"), "w"), indent=1)
        for v in self.violations:
            tail = "" if v.get("failing_input") else " no-failing-input-found"
            print("VIOLATION property=%s replay=%s obligation=%s%s" % (self.pid, v["replay"], v["obligation"], tail))
        if self.violations:
            return 1
        if undecided:
            print("UNDECIDED property=%s: %s" % (self.pid, undecided))
            return 2
        print("OK property=%s obligations=%d discharged=%d bounded=%d wall=%.1fs" % (self.pid, nob, ndis, len(self.bounded), wall))
        return 0


# ======================================================================== Kani (bounded stand-ins / counterexamples)
KANI_MEM_KB = 24 * 1024 * 1024      # per-process address-space cap (a runaway CBMC must not take the machine down)
KANI_UNDECIDED_PATTERNS = ["unwinding assertion", "is not currently supported by Kani", "unsupported_construct",
                           "recursion unwinding", "memory", "out of memory"]


def kani_crate(run):
    """scratch copy of the harness crate whose path-deps point at the tree being checked"""
    import hashlib
    tag = hashlib.sha1(os.path.abspath(run.repo).encode()).hexdigest()[:10]
    d = os.path.join(run.root, "build", "kh-" + tag)
    os.makedirs(d, exist_ok=True)
    toml = open(os.path.join(run.root, "kani", "Cargo.toml.in")).read().replace("@REPO@", os.path.abspath(run.repo))
    tp = os.path.join(d, "Cargo.toml")
    if not os.path.exists(tp) or open(tp).read() != toml:
        open(tp, "w").write(toml)
    src = os.path.join(d, "src")
    if os.path.islink(src) or os.path.exists(src):
        if not os.path.islink(src) or os.readlink(src) != os.path.join(run.root, "kani", "src"):
            if os.path.islink(src):
                os.unlink(src)
            else:
                shutil.rmtree(src)
    if not os.path.exists(src):
        os.symlink(os.path.join(run.root, "kani", "src"), src)
    lock = os.path.join(run.repo, "Cargo.lock")
    if os.path.exists(lock):
        shutil.copy(lock, os.path.join(d, "Cargo.lock"))
    return d


def tree_key(run):
    """hash of everything a harness result depends on: the checked tree's sources and manifests, the harness crate"""
    import hashlib
    h = hashlib.sha1()
    roots = [os.path.join(run.repo, "packages"), os.path.join(run.root, "kani")]
    files = [os.path.join(run.repo, "Cargo.toml"), os.path.join(run.repo, "Cargo.lock")]
    for r in roots:
        for dp, dn, fn in os.walk(r):
            dn[:] = sorted(x for x in dn if x not in ("target", ".git"))
            for f in sorted(fn):
                if f.endswith((".rs", ".toml", ".in", ".lock")):
                    files.append(os.path.join(dp, f))
    for f in files:
        try:
            h.update(f.encode() + b"\0" + open(f, "rb").read() + b"\0")
        except OSError:
            pass
    return h.hexdigest()[:20]


# the verification hooks of /repo (MANIFEST.hooks) are compiled in for the harness crate, the replay binary and the snippets
HOOK_RUSTFLAGS = "--cfg unhindered_ec_verif"


def kani_cmd(args, cwd, timeout):
    """cargo kani under an address-space limit and a wall-clock limit"""
    cmd = "ulimit -v %d; exec cargo kani %s" % (KANI_MEM_KB, " ".join(args))
    return sh(["bash", "-c", cmd], cwd=cwd, timeout=timeout, env={"RUSTFLAGS": HOOK_RUSTFLAGS})


def parse_terse(out):
    """per-harness summary of a `-j N --output-format terse` run"""
    res, cur_by_thread, cur = {}, {}, None
    for l in out.split("\n"):
        m = re.match(r"\s*(?:Thread (\d+): )?Checking harness (\S+?)\.\.\.", l)
        if m:
            cur_by_thread[m.group(1) or "0"] = m.group(2)
            cur = m.group(2)
            res.setdefault(cur, {"failed": None, "checks": 0, "covers": (0, 0), "status": None, "fail_desc": [], "time": 0.0})
            continue
        m = re.match(r"\s*Thread (\d+):\s*$", l)
        if m:
            cur = cur_by_thread.get(m.group(1))
            continue
        if cur is None:
            continue
        r = res[cur]
        m = re.search(r"\*\* (\d+) of (\d+) failed", l)
        if m:
            r["failed"], r["checks"] = int(m.group(1)), int(m.group(2))
        m = re.search(r"\*\* (\d+) of (\d+) cover properties satisfied", l)
        if m:
            r["covers"] = (int(m.group(1)), int(m.group(2)))
        m = re.match(r"\s*Failed Checks: (.*)$", l)
        if m:
            r["fail_desc"].append(m.group(1).strip())
        m = re.search(r"VERIFICATION:- (\w+)", l)
        if m:
            r["status"] = m.group(1)
        m = re.search(r"Verification Time: ([0-9.]+)s", l)
        if m:
            r["time"] = float(m.group(1))
    return res


def parse_regular(out):
    """checks of a single-harness regular-format run: list of (name, status, description, location)"""
    checks = []
    for m in re.finditer(r"Check \d+: (.+)\n\s*- Status: (\w+)\n\s*- Description: \"(.*?)\"\n\s*- Location: (.*)", out):
        checks.append((m.group(1), m.group(2), m.group(3), m.group(4).strip()))
    tapes = {}
    for m in re.finditer(r"Check for `(\w+)`: \"(.*?)\"\s*\n#\[test\]\nfn \w+\(\) \{\n\s*let concrete_vals: Vec<Vec<u8>> = vec!\[(.*?)\n\s*\];", out, re.S):
        vals = []
        for vm in re.finditer(r"vec!\[([0-9, ]*)\]", m.group(3)):
            vals.append([int(x) for x in vm.group(1).replace(" ", "").split(",") if x])
        tapes.setdefault((m.group(1), m.group(2)), []).append(vals)
    return checks, tapes


def run_kani_property(run, cfg):
    hs = [h for h in cfg["kani"] if run.tier == "thorough" or h.get("tier", "quick") == "quick"]
    if not hs:
        return None
    d = kani_crate(run)
    names = [h["name"] for h in hs]
    # Results of harnesses that PASSED are reused when nothing they depend on has changed: the key is a hash of every
    # source / manifest file of the tree being checked plus the harness sources.  (C01, C02 and C03 share one harness
    # set.)  Failing or missing harnesses are always re-run.
    key = tree_key(run)
    cdir = os.path.join(run.root, "build", "kani-cache")
    os.makedirs(cdir, exist_ok=True)
    cpath = os.path.join(cdir, key + ".json")
    cache = {}
    if os.path.exists(cpath) and not os.environ.get("VERIF_NO_CACHE"):
        try:
            cache = json.load(open(cpath))
        except Exception:
            cache = {}
    todo = [n for n in names if n not in cache]
    res = {n: dict(cache[n], cached=True) for n in names if n in cache}
    for n in res:
        res[n]["covers"] = tuple(res[n]["covers"])
    wall = 0.0
    if todo:
        args = ["--lib", "--exact", "-Z", "stubbing"] + sum([["--harness", n] for n in todo], []) + ["-j", "16", "--output-format", "terse"]
        rc, so, se, wall = kani_cmd(args, d, cfg.get("kani_timeout", 3000))
        open(os.path.join(run.build, "kani.terse.txt"), "w").write(so + "\n-----\n" + se)
        if "error: could not compile" in se or "error[E" in se or "Failed to match the following harness" in se:
            raise Undecided("the harness crate does not compile against this tree (API drift?):\n" + "\n".join(
                l for l in se.split("\n") if l.startswith("error"))[:1500])
        fresh = parse_terse(so)
        res.update(fresh)
        for n, r in fresh.items():
            if r["status"] == "SUCCESSFUL" and r["covers"][0] == r["covers"][1]:
                cache[n] = r
        json.dump(cache, open(cpath, "w"))
        if rc == 124 and not all(n in res and res[n]["status"] for n in todo):
            missing = [n for n in todo if n not in res or not res[n]["status"]]
            run.notes.append("kani timed out on: " + ", ".join(missing))
    run.backends.setdefault("kani/cbmc", {"version": "kani 0.68.0 / cbmc 6.11 (cadical)", "solver_seconds": 0.0, "wall_seconds": 0.0})
    run.backends["kani/cbmc"]["wall_seconds"] += wall
    undecided = None
    for h in hs:
        n = h["name"]
        r = res.get(n)
        if r is None or r["status"] is None:
            undecided = undecided or ("kani produced no result for harness %s (out of memory / crashed?)" % n)
            continue
        run.backends["kani/cbmc"]["solver_seconds"] += r["time"]
        ok = r["status"] == "SUCCESSFUL" and r["covers"][0] == r["covers"][1]
        if r["covers"][1] < h.get("min_covers", 1):
            undecided = undecided or ("vacuity guard: harness %s has %d cover properties, expected at least %d" % (n, r["covers"][1], h.get("min_covers", 1)))
        entry = {"harness": n, "bound": h["bound"], "complete": bool(h.get("complete")), "checks": r["checks"], "reused_from_identical_tree": bool(r.get("cached")),
                 "covers_satisfied": "%d/%d" % r["covers"], "ok": ok, "seconds": r["time"], "what": h.get("what", "")}
        if h.get("complete"):
            run.obligations.append((n + " [complete: loop-free, full-domain]", "kani/cbmc", ok, r["time"]))
        run.bounded.append(entry)
        if ok:
            continue
        # ---- details + counterexample for this harness
        rc2, so2, se2, w2 = kani_cmd(["--lib", "--exact", "-Z", "stubbing", "--harness", n, "-Z", "concrete-playback", "--concrete-playback=print"],
                                     d, cfg.get("kani_timeout", 3000))
        open(os.path.join(run.build, "kani.%s.txt" % n.replace(":", "_")), "w").write(so2 + "\n-----\n" + se2)
        checks, tapes = parse_regular(so2)
        bad = [c for c in checks if c[1] == "FAILURE"] + [c for c in checks if c[0].split(".")[-2:-1] == ["cover"] and c[1] in ("UNSATISFIABLE", "UNREACHABLE")]
        if any(c[1] in ("ERROR", "UNDETERMINED") for c in checks) and not [c for c in checks if c[1] == "FAILURE"]:
            undecided = undecided or ("harness %s: CBMC left checks undetermined (%s) — tool limit, not a verdict" % (
                n, "; ".join(sorted({c[2] for c in checks if c[1] in ("ERROR", "UNDETERMINED")}))[:200]))
            continue
        if not bad:
            undecided = undecided or ("harness %s failed but no failing check could be parsed" % n)
            continue
        seen = set()
        for (cname, status, desc, loc) in bad:
            # tool limits are never a verdict; only for the self-composition harnesses (entropy_guard) an *unsupported foreign
            # function* reached from the operation under test (getrandom, clock_gettime) is the violation being looked for
            limit = any(p in desc or p in cname for p in KANI_UNDECIDED_PATTERNS)
            foreign = any(p in desc or p in cname for p in ("is not currently supported by Kani", "unsupported_construct"))
            if limit and not (h.get("entropy_guard") and foreign):
                undecided = undecided or ("harness %s: %s (%s) — tool limit, not a verdict" % (n, desc, cname))
                continue
            mine = "/kani/src/" in loc or loc.startswith("src/")
            # obligations tagged "[C01 C02] ..." belong to those properties only; panics in the code under test belong
            # to the harness' panic_props (default: the property being checked)
            tags = re.match(r"\[((?:C\d+\s*)+)\]", desc)
            owners = tags.group(1).split() if (mine and tags) else (h.get("panic_props") if (status == "FAILURE" and not mine) else None)
            if owners and run.pid not in owners:
                other = "harness %s: obligation of %s failed: %s" % (n, "/".join(owners), desc[:120])
                run.notes.append(other)
                undecided = undecided or other
                continue
            if status == "FAILURE":
                ob = ("%s@%s" % (desc, n)) if mine else ("no-panic[%s]@%s" % (re.sub(r".*in function ", "", loc), n))
            else:
                ob = "can-occur[%s]@%s" % (desc, n)
            ob = re.sub(r"\s+", "-", ob)
            if ob in seen:
                continue
            seen.add(ob)
            cands = tapes.get(("assertion", desc), []) if status == "FAILURE" else []
            failing_input, replay_cmd, detail = None, None, "%s\n  status: %s\n  location: %s" % (desc, status, loc)
            want = None if not mine else desc
            for tape in cands:
                # several failing checks may share one (placeholder) description: take the first tape that reproduces
                rp = replay_tape(run, d, n, tape)
                if rp["reproduced"] and (want is None or want in rp["output"]):
                    detail += "\n" + rp["output"]
                    failing_input = {"harness": n, "kani_values": tape, "replay_output": rp["output"]}
                    replay_cmd = rp["cmd"]
                    break
            if cands and not failing_input:
                detail += "\n(no Kani counterexample reproduced the failure under replay)"
            run.report_failure(ob, desc if status == "FAILURE" else "required reachability witness is " + status, detail,
                               failing_input=failing_input, replay_cmd=replay_cmd)
    return undecided


def replay_tape(run, d, harness, tape):
    """run the harness body on the concrete values, on the ordinary toolchain against the real crates"""
    rc, so, se, _ = sh(["cargo", "build", "--offline", "--bin", "kh-replay"], cwd=d, timeout=1200, env={"RUSTFLAGS": HOOK_RUSTFLAGS})
    if rc != 0:
        return {"reproduced": False, "output": "replay binary did not build: " + se[-600:], "cmd": None}
    os.makedirs(os.path.join(run.root, "replays"), exist_ok=True)
    import hashlib
    body = harness.split("::")[-1]
    body = body[2:] if body.startswith("p_") else body
    tp = os.path.join(run.root, "replays", "%s-%s-%s.tape.json" % (run.pid, body, hashlib.sha1(json.dumps(tape).encode()).hexdigest()[:8]))
    json.dump(tape, open(tp, "w"))
    exe = os.path.join(d, "target", "debug", "kh-replay")
    rc, so, se, _ = sh([exe, body, tp], timeout=120, env={"RUST_BACKTRACE": "0"})
    cmd = "cd %s && RUSTFLAGS='%s' cargo build --offline --bin kh-replay 2>/dev/null; %s %s %s" % (d, HOOK_RUSTFLAGS, exe, body, tp)
    return {"reproduced": rc == 1, "output": (so + se)[-1500:], "cmd": cmd}


# ======================================================================== native exhaustive enumeration (C05 fallback)
def run_native_enum(run, cfg):
    """Harness bodies that ENUMERATE a finite input space themselves are executed natively (kh-replay, ordinary toolchain,
    real crates).  No verifier is involved: this is a bounded stand-in for functions neither Verus (after a rewrite) nor
    CBMC (PushProgram) can carry; it is listed under `bounded` and never counted as discharged."""
    d = kani_crate(run)
    rc, so, se, _ = sh(["cargo", "build", "--offline", "--release", "--bin", "kh-replay"], cwd=d, timeout=1800, env={"RUSTFLAGS": HOOK_RUSTFLAGS})
    if rc != 0:
        return "native enumeration: the harness crate does not build against this tree:\n" + se[-1200:]
    exe = os.path.join(d, "target", "release", "kh-replay")
    os.makedirs(os.path.join(run.root, "replays"), exist_ok=True)
    tp = os.path.join(run.root, "replays", "empty.tape.json")
    open(tp, "w").write("[]")
    und = None
    for h in cfg["native"]:
        if h.get("tier", "quick") == "thorough" and run.tier != "thorough":
            continue
        rc, so, se, wall = sh([exe, h["harness"], tp], timeout=h.get("timeout", 1200), env={"RUST_BACKTRACE": "0"})
        run.backends.setdefault("native execution (rustc)", {"wall_seconds": 0.0})
        run.backends["native execution (rustc)"]["wall_seconds"] += wall
        covered = [l for l in so.split("\n") if l.startswith("REPLAY-COVER:")]
        failed = [l[len("REPLAY: obligation failed on the real code: "):] for l in so.split("\n") if l.startswith("REPLAY: obligation failed")]
        panicked = [l for l in so.split("\n") if "PANICKED" in l]
        ok = rc == 0 and bool(covered)
        run.bounded.append({"harness": "native:" + h["harness"], "bound": h["bound"], "what": h["what"], "ok": ok, "checks": 1,
                            "seconds": round(wall, 2), "kind": "exhaustive enumeration executed natively (no verifier)"})
        cmd = "cd %s && RUSTFLAGS='%s' cargo build --offline --release --bin kh-replay 2>/dev/null; %s %s %s" % (d, HOOK_RUSTFLAGS, exe, h["harness"], tp)
        if rc == 1:
            for f in failed or panicked or ["unknown obligation"]:
                m = re.match(r"(.*?) \[input: (.*)\]$", f)
                label, inp = (m.group(1), m.group(2)) if m else (f, None)
                run.report_failure("%s@native:%s" % (label.replace(" ", "-")[:160], h["harness"]), label, so[-3000:],
                                   failing_input={"input": inp or so[-400:], "harness": h["harness"]}, replay_cmd=cmd)
        elif rc == 124:
            und = und or "native enumeration %s timed out" % h["harness"]
        elif rc != 0:
            und = und or "native enumeration %s: exit %d: %s" % (h["harness"], rc, (so + se)[-400:])
        elif not covered:
            und = und or "native enumeration %s explored nothing (vacuous)" % h["harness"]
    return und


# ======================================================================== compile-time type-state obligations (C19)
def run_compile_snippets(run, cfg):
    """Each snippet is compiled alone against the real crate.  must-fail snippets have to be rejected with the expected
    error code on the expected method (a type-state precondition = a trait bound on the generated impl block); must-pass
    snippets have to type-check.  The deciding engine here is rustc's trait solver: a static, for-all-values decision."""
    import hashlib
    sd = os.path.join(run.root, "snippets", cfg["snippets"])
    tag = hashlib.sha1(os.path.abspath(run.repo).encode()).hexdigest()[:10]
    d = os.path.join(run.root, "build", "snip-" + tag)
    os.makedirs(os.path.join(d, "src", "bin"), exist_ok=True)
    for f in glob.glob(os.path.join(d, "src", "bin", "*.rs")):
        os.remove(f)
    snippets = {}
    for f in sorted(glob.glob(os.path.join(sd, "*.rs"))):
        name = os.path.basename(f)[:-3]
        txt = open(f).read()
        m = re.search(r"//@ expect: (pass|fail)(?:\s+(E\d+)\s+(\S+))?", txt)
        if not m:
            raise Undecided("snippet %s has no //@ expect line" % name)
        snippets[name] = (m.group(1), m.group(2), m.group(3), txt)
        shutil.copy(f, os.path.join(d, "src", "bin", name + ".rs"))
    open(os.path.join(d, "Cargo.toml"), "w").write(
        '[package]\nname = "snip"\nversion = "0.1.0"\nedition = "2021"\n[dependencies]\npush = { path = "%s/packages/push" }\n'
        'ordered-float = "5.0.0"\n[workspace]\n' % os.path.abspath(run.repo))
    lock = os.path.join(run.repo, "Cargo.lock")
    if os.path.exists(lock):
        shutil.copy(lock, os.path.join(d, "Cargo.lock"))
    rc, so, se, wall = sh(["cargo", "check", "--offline", "--bins", "--keep-going", "--message-format=json"], cwd=d, timeout=1500, env={"RUSTFLAGS": HOOK_RUSTFLAGS})
    errs = {}
    finished = set()
    for l in so.split("\n"):
        if not l.startswith("{"):
            continue
        try:
            j = json.loads(l)
        except Exception:
            continue
        if j.get("reason") == "compiler-message" and j.get("message", {}).get("level") == "error":
            t = j.get("target", {}).get("name")
            msg = j["message"]
            code = (msg.get("code") or {}).get("code")
            errs.setdefault(t, []).append((code, msg.get("message", ""), msg.get("rendered", "")))
        if j.get("reason") == "compiler-artifact":
            finished.add(j.get("target", {}).get("name"))
    if "push" not in finished and not any(n in finished for n in snippets) and not errs:
        raise Undecided("snippet crate did not build (the tree does not compile?):\n" + se[-1500:])
    run.backends.setdefault("rustc (trait solver)", {"wall_seconds": 0.0})
    run.backends["rustc (trait solver)"]["wall_seconds"] += wall
    for name, (kind, code, method, txt) in snippets.items():
        e = errs.get(name, [])
        if kind == "pass":
            ok = not e and name in finished
            run.obligations.append(("snippet %s type-checks (legal builder call order)" % name, "rustc", ok, 0.0))
            if not ok:
                run.report_failure("must-compile[%s]" % name, "a call order the type-state must permit is rejected",
                                   "\n".join(x[2] for x in e)[:3000] or "no artifact produced",
                                   failing_input={"snippet": txt, "compiler_output": "\n".join(x[2] for x in e)[:2000]},
                                   replay_cmd="cd %s && RUSTFLAGS='%s' cargo check --offline --bin %s" % (d, HOOK_RUSTFLAGS, name))
        else:
            hit = [x for x in e if x[0] == code and ("`%s`" % method) in x[1]]
            ok = bool(hit)
            run.obligations.append(("snippet %s is rejected with %s on `%s` (type-state precondition)" % (name, code, method), "rustc", ok, 0.0))
            if not ok:
                if e:
                    # rejected, but not for the expected reason: cannot attribute -> undecided
                    return "snippet %s is rejected for an unexpected reason: %s" % (name, "; ".join("%s %s" % (x[0], x[1][:80]) for x in e)[:300])
                run.report_failure("must-not-compile[%s]" % name, "an illegal builder call sequence type-checks",
                                   "expected %s on `%s`; the snippet compiled" % (code, method),
                                   failing_input={"snippet": txt, "compiler_output": "compiles without error"},
                                   replay_cmd="cd %s && RUSTFLAGS='%s' cargo check --offline --bin %s" % (d, HOOK_RUSTFLAGS, name))
    return None


def run_verus_multi(run, cfg):
    """several independent assembled files (template sets) for one property"""
    und = None
    for i, ts in enumerate(cfg["template_sets"]):
        c = dict(cfg)
        c["templates"] = ts
        c["_name"] = "all%d" % i
        u = None
        try:
            u = run_verus_property(run, c)
        except Undecided as e:
            u = str(e)
        und = und or u
    return und


def run_verus_property(run, cfg):
    expanded = None
    ex = cfg.get("expand")
    for pkg in (["push"] if ex is True else (ex or [])):
        expanded = run.expand(pkg)
    path = run.extract(cfg["templates"], name=cfg.get("_name", "all"), expanded=expanded)
    run.scan_assumptions(path)
    extra = run.ensure_extern() if cfg.get("extern") else []
    failures = run.verus(path, extra=extra)
    obs = []
    for f in failures:
        fn = enclosing_fn(path, f["line"] if f["labels"] and f["label_name"] else f.get("anchor", f["line"]))
        obs.append((fn, f))
    # a function that has per-variant split copies is attributed through them
    split_failed = {fn.split("::")[-1] for fn, _ in obs if "__" in fn.split("::")[-1]}
    dep_fail = []
    seen = set()
    for fn, f in obs:
        base = fn.split("::")[-1]
        if "__" not in base and any(sf.startswith(base + "__") for sf in split_failed):
            continue
        if "closure" in f["message"]:
            # the same closure text is re-checked inside every per-variant copy: one obligation
            m = re.search(r"ensures\s+(.{0,90})", f["text"])
            fn = re.sub(r"__.*$", "", fn)
            # a closure computes an operand/result value: functional semantics = the primary property of the
            # function, unless the overlay labelled the closure itself
            if not f["label_name"]:
                f["labels"] = f["labels"][:1]
            ob = "closure-ensures[%s]@%s" % (re.sub(r"\s+", "", m.group(1) if m else f["text"][:90]), fn)
        else:
            ob = "%s@%s" % ((f["label_name"] or f["message"]).replace(" ", "-"), fn)
        if ob in seen:
            continue
        seen.add(ob)
        if run.pid in f["labels"]:
            run.report_failure(ob, f["message"], f["rendered"])
        else:
            dep_fail.append((ob, f))
    if dep_fail and not run.violations:
        return "obligation(s) outside this property's labels failed (they belong to %s): %s" % (
            sorted({l for _, f in dep_fail for l in f["labels"]}), "; ".join(o for o, _ in dep_fail)[:800])
    if run.tier == "thorough" and not failures:
        # stability re-runs with different SMT seeds: a proof that only passes for one seed is brittle
        for s in (1, 2):
            n0 = len(run.obligations)
            f2 = run.verus(path, extra=extra + ["--smt-option", "smt.random_seed=%d" % (run.seed + s)], tag="verus.seed%d" % s)
            del run.obligations[n0:]
            if f2:
                return "proof unstable under smt.random_seed=%d: %s" % (run.seed + s, f2[0]["message"])
    return None


def enclosing_fn(path, line):
    lines = open(path).read().split("\n")
    for i in range(min(line, len(lines)) - 1, -1, -1):
        m = re.search(r"\bfn\s+([A-Za-z_0-9]+)", lines[i])
        if m and not lines[i].strip().startswith("//"):
            # find impl context
            ctx = ""
            for j in range(i, -1, -1):
                mm = re.match(r"\s*(?:pub\s+)?(impl\b[^{]*|trait\s+[^{]*)\{?", lines[j])
                if mm and not lines[j].startswith(" " * 8):
                    ctx = re.sub(r"\s+", " ", mm.group(1)).strip()
                    break
            return (ctx + "::" if ctx else "") + m.group(1)
    return "?"


def main(root, argv):
    import props
    if not argv:
        print(__doc__)
        sys.exit(2)
    pid = argv[0]
    tier = os.environ.get("VERIF_TIER", "quick")
    if "--tier" in argv:
        tier = argv[argv.index("--tier") + 1]
    if "--replay" in argv:
        rp = argv[argv.index("--replay") + 1]
        d = json.load(open(rp))
        print(json.dumps({k: d[k] for k in ("property", "failed_obligation", "message", "failing_input", "replay_cmd")}, indent=1))
        if d.get("replay_cmd"):
            rc, so, se, _ = sh(["bash", "-c", d["replay_cmd"]], cwd=root)
            print(so[-3000:], se[-3000:])
            sys.exit(1 if rc != 0 else 0)
        print(d.get("verifier_output", ""))
        sys.exit(1)
    cfg = props.PROPS.get(pid)
    if cfg is None:
        print("unknown or unclaimed property", pid)
        sys.exit(2)
    run = Run(root, pid, tier)
    undecided = None
    for step in cfg["steps"]:
        # every step runs even if an earlier one is undecided (the bounded Kani harnesses are the fallback when the
        # Verus extraction loses its anchors on a rewritten function)
        try:
            u = step(run, cfg)
        except Undecided as e:
            u = str(e)
        if u and not undecided:
            undecided = u
    sys.exit(run.finish(cfg.get("level", "proof"), cfg, undecided))
