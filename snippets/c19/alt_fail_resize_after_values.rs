//@ expect: fail E0599 with_counters_max_size
// second state type, renamed stack: a stack's size cannot be changed after values were loaded into it
use push::push_vm::verif_state::AltState;
fn main() {
    let _ = AltState::builder().with_max_stack_size(3).with_counters_values([1]).unwrap().with_counters_max_size(5);
}
