//@ expect: fail E0599 with_int_max_size
// a stack's size cannot be changed after values were loaded into it
use push::push_vm::push_state::PushState;
fn main() {
    let _ = PushState::builder().with_max_stack_size(3).with_int_values([1]).unwrap().with_int_max_size(5);
}
