//@ expect: fail E0599 with_int_max_size
// ... nor after an input was declared
use push::push_vm::push_state::PushState;
fn main() {
    let _ = PushState::builder().with_max_stack_size(3).with_int_values([1]).unwrap().with_bool_input("b", true).with_int_max_size(5);
}
