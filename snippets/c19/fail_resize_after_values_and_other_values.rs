//@ expect: fail E0599 with_int_max_size
// ... nor after values were loaded into another stack
use push::push_vm::push_state::PushState;
fn main() {
    let _ = PushState::builder().with_max_stack_size(3).with_int_values([1]).unwrap().with_bool_values([true]).unwrap().with_int_max_size(5);
}
