//@ expect: fail E0599 build
// a builder that has not been given stack sizes cannot be built
use push::push_vm::push_state::PushState;
fn main() {
    let _ = PushState::builder().with_instruction_step_limit(1).build();
}
