//@ expect: fail E0599 with_max_stack_size
// second state type, renamed stack: the global size cannot be changed after values were loaded into any stack
use push::push_vm::verif_state::AltState;
fn main() {
    let _ = AltState::builder().with_max_stack_size(3).with_flags_values([true]).unwrap().with_max_stack_size(5);
}
