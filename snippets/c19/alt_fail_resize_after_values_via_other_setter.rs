//@ expect: fail E0599 with_counters_max_size
// second state type: a loaded stack stays loaded when another stack's size is set afterwards
use push::push_vm::verif_state::AltState;
fn main() {
    let _ = AltState::builder().with_max_stack_size(3).with_counters_values([1]).unwrap().with_flags_max_size(2).with_counters_max_size(5);
}
