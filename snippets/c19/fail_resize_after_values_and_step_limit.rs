//@ expect: fail E0599 with_int_max_size
// ... nor after the step limit was set
use push::push_vm::push_state::PushState;
fn main() {
    let _ = PushState::builder().with_max_stack_size(3).with_int_values([1]).unwrap().with_instruction_step_limit(9).with_int_max_size(5);
}
