//@ expect: fail E0599 with_flags_values
// second state type, renamed stack: values cannot be loaded into a stack whose size has not been set
use push::push_vm::verif_state::AltState;
fn main() {
    let _ = AltState::builder().with_flags_values([true, false]);
}
