//@ expect: fail E0599 with_max_stack_size
use push::push_vm::push_state::PushState;
fn main() {
    let _ = PushState::builder().with_max_stack_size(3).with_no_program().with_max_stack_size(5);
}
