//@ expect: fail E0599 with_int_values
// values cannot be loaded into a stack whose size has not been set
use push::push_vm::push_state::PushState;
fn main() {
    let _ = PushState::builder().with_int_values([1, 2]);
}
