//@ expect: fail E0599 build
// second state type: a builder that has not been given stack sizes cannot be built
use push::push_vm::verif_state::AltState;
fn main() {
    let _ = AltState::builder().with_instruction_step_limit(1).build();
}
