//@ expect: pass
// a second state type (stacks renamed in the builder, declared in another order, exec field named differently): the
// call orders the type-state permits
use ordered_float::OrderedFloat;
use push::push_vm::program::PushProgram;
use push::push_vm::verif_state::AltState;
fn main() {
    let _a = AltState::builder()
        .with_max_stack_size(4)
        .with_counters_max_size(9)
        .with_counters_values([1, 2])
        .unwrap()
        .with_program(Vec::<PushProgram>::new())
        .unwrap()
        .with_flags_input("b", true)
        .with_float_values([OrderedFloat(1.0)])
        .unwrap()
        .with_instruction_step_limit(10)
        .with_counters_input("x", 3)
        .build();
    let _b = AltState::builder()
        .with_instruction_step_limit(10)
        .with_float_input("f", OrderedFloat(0.5))
        .with_max_stack_size(4)
        .with_no_program()
        .with_flags_max_size(2)
        .with_flags_values([true])
        .unwrap()
        .build();
}
