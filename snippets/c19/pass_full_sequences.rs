//@ expect: pass
// the call orders the type-state permits
use ordered_float::OrderedFloat;
use push::push_vm::program::PushProgram;
use push::push_vm::push_state::PushState;
fn main() {
    let _a = PushState::builder()
        .with_max_stack_size(4)
        .with_int_max_size(9)
        .with_int_values([1, 2])
        .unwrap()
        .with_program(Vec::<PushProgram>::new())
        .unwrap()
        .with_bool_input("b", true)
        .with_float_values([OrderedFloat(1.0)])
        .unwrap()
        .with_instruction_step_limit(10)
        .with_int_input("x", 3)
        .build();
    let _b = PushState::builder()
        .with_instruction_step_limit(10)
        .with_float_input("f", OrderedFloat(0.5))
        .with_max_stack_size(4)
        .with_no_program()
        .with_bool_max_size(2)
        .with_bool_values([true])
        .unwrap()
        .build();
}
