//@ expect: fail E0599 build
// no other builder call supplies the step limit
use push::push_vm::push_state::PushState;
fn main() {
    let _ = PushState::builder().with_max_stack_size(3).with_no_program().with_int_values([1]).unwrap().with_bool_max_size(2).with_int_input("x", 1).build();
}
