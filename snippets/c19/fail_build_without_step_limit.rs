//@ expect: fail E0599 build
// a builder that has not been given a step limit cannot be built
use push::push_vm::push_state::PushState;
fn main() {
    let _ = PushState::builder().with_max_stack_size(1).with_no_program().build();
}
