//@ expect: fail E0599 with_int_max_size
// a loaded stack stays loaded when ANOTHER stack's size is set afterwards: its size still cannot be changed
use push::push_vm::push_state::PushState;
fn main() {
    let _ = PushState::builder().with_max_stack_size(3).with_int_values([1]).unwrap().with_bool_max_size(2).with_int_max_size(5);
}
