//@ expect: fail E0599 with_no_program
// the program decision needs the exec stack's size first
use push::push_vm::push_state::PushState;
fn main() {
    let _ = PushState::builder().with_no_program();
}
