//@ expect: fail E0599 with_program
use push::push_vm::program::PushProgram;
use push::push_vm::push_state::PushState;
fn main() {
    let _ = PushState::builder().with_program(Vec::<PushProgram>::new());
}
